/-
M8: an evaluation run THROUGH a cache back-end model.

`Eval.lean` threads a `World` (the key-value specification of a cache at evaluator states); the cache models of M4
(`CacheOps σ`: memory, file, SQL, store-backed, combinators) speak `CState` = metadata + data token.  This file joins them:

  * `StateCodec`: how an evaluator state is handed to a cache (`enc`) and read back (`dec`), and the metadata record a
    progress write (`store_metadata`) files (`metaOf`);
  * `applyVia C codec`: one trace operation of the oracle evaluator (`COp` of EvalO.lean) performed on the back-end `C` —
    `get` records the decoded answer, the three writes are applied — the `applyOp` of Conc.lean over an arbitrary `CacheOps`
    instead of `World`;
  * `viaLoop` / `evalVia`: the single-thread replay of Conc.lean (`Thread.run`, `stepThread`): run `evalQO` against the answers
    received so far; perform the next not yet performed operation of its trace on `C`; when none is left the run is complete
    (it cannot have starved: a starved run ends with the `get` that found no answer) and its outcome is the result;
  * `worldOf cfg codec kv`: the `World` a state of the specification `kvOpsC cfg` stands for.

`steps` bounds the number of cache operations (the loop is total by this fuel); `viaLoop` answers `none` when it runs out.
Nothing here is called by the driver; the theorems are in LiquerProofs/Lemmas/EvalVia.lean and Props/C04.lean.
-/
import LiquerModel.EvalO
import LiquerModel.Conc
import LiquerModel.CacheMem

namespace Liquer

/-- what `store` does to the status of the state it files, and what a served state carries: `ready` -/
def EState.asReady (st : EState) : EState := { st with status := statusReady }

structure StateCodec where
  /-- the cache-level state (metadata + data token) of an evaluator state -/
  enc : EState → CState
  /-- the evaluator state read back from what `get` returns -/
  dec : CState → Option EState
  /-- the type identifier every evaluator state is stored with -/
  typeId : Str := []

/-- the record of a progress write: `store_metadata({query, status, type_identifier, …})` -/
def StateCodec.metaOf (c : StateCodec) (k status : Str) : CMeta := { query := k, status := status, typeId := c.typeId }

/-- the cache operation a trace operation of the evaluator is -/
def COp.toCache (c : StateCodec) : COp → CacheOp
  | .get k => .get k
  | .storeMeta k status => .storeMeta (c.metaOf k status)
  | .store st => .store (c.enc st)
  | .remove k => .remove k

/-- the answer of `get` as the evaluator sees it -/
def answerOf (c : StateCodec) (r : Option CState) : Option EState := (r.bind c.dec).map EState.asReady

/-- one trace operation on the back-end `C`: a `get` records the (decoded) answer, writes are applied -/
def applyVia {σ : Type} (C : CacheOps σ) (c : StateCodec) (acc : σ × List (Option EState)) : COp → σ × List (Option EState)
  | .get k => ((C.get acc.1 k).1, acc.2 ++ [answerOf c (C.get acc.1 k).2])
  | .storeMeta k status => ((C.storeMeta acc.1 (c.metaOf k status)).1, acc.2)
  | .store st => ((C.store acc.1 (c.enc st)).1, acc.2)
  | .remove k => ((C.remove acc.1 k).1, acc.2)

/-- replay a whole trace on the back-end -/
def replayVia {σ : Type} (C : CacheOps σ) (c : StateCodec) (acc : σ × List (Option EState)) (tr : List COp) :
    σ × List (Option EState) := tr.foldl (applyVia C c) acc

/-- the replay loop: `ans` = answers received so far, `done` = operations of the trace already performed on `C` -/
def viaLoop {σ : Type} (C : CacheOps σ) (c : StateCodec) (env : Env) (n : Nat) (q : Query) (raw : Str) :
    Nat → σ → List (Option EState) → Nat → Option (σ × Outcome × List Str)
  | 0, _, _, _ => none
  | steps + 1, s, ans, done =>
    let r := evalQO env n { answers := ans } q raw .none none true
    match r.1.trace[done]? with
    | none => some (s, r.2, r.1.calls)
    | some op =>
      let acc := applyVia C c (s, ans) op
      viaLoop C c env n q raw steps acc.1 acc.2 (done + 1)

/-- `evaluate(query)` with the cache back-end `C` in state `s`: final back-end state, outcome, calls of the instrumented
commands (`unmodelled` when `steps` cache operations did not suffice) -/
def evalVia {σ : Type} (C : CacheOps σ) (c : StateCodec) (env : Env) (n steps : Nat) (s : σ) (q : Query) (raw : Str) :
    σ × Outcome × List Str :=
  (viaLoop C c env n q raw steps s [] 0).getD (s, .unmodelled, [])

/-- a list of evaluations, one after the other, on the same back-end: the outcomes and calls of each -/
def evalViaHist {σ : Type} (C : CacheOps σ) (c : StateCodec) (env : Env) (n steps : Nat) :
    σ → List (Query × Str) → σ × List (Outcome × List Str)
  | s, [] => (s, [])
  | s, (q, raw) :: rest =>
    let r := evalVia C c env n steps s q raw
    let r2 := evalViaHist C c env n steps r.1 rest
    (r2.1, (r.2.1, r.2.2) :: r2.2)

/-! ### the world a state of the specification stands for -/

/-- the entry of one binding: the status of its metadata; the state is read from the data slot -/
def entryOf (c : StateCodec) (m : CMeta) (d : Option Str) : Entry :=
  { status := m.status,
    st := match d with
      | some x => (c.dec { metadata := m, data := some x }).map EState.asReady
      | none => none }

def worldOf (cfg : KVCfg) (c : StateCodec) (kv : KV) : World :=
  { cache := kv.map (fun e => (e.1, entryOf c e.2.1 e.2.2)), enabled := true, metaKeepsData := cfg.keepData, calls := [] }

/-! ### a concrete codec: a self-delimiting rendering of the whole evaluator state in the data token

(non-vacuity of the codec laws and the `decide` examples; the real serialisers are parameters of the file/SQL/store models) -/

namespace Ser

/-- `n` ↦ `a…ab` -/
def putNat (n : Nat) : Str := List.replicate n 'a' ++ ['b']
def getNat : Str → Option (Nat × Str)
  | [] => none
  | c :: r => if c = 'a' then (getNat r).map (fun p => (p.1 + 1, p.2)) else if c = 'b' then some (0, r) else none

def putBool (b : Bool) : Str := [if b then 't' else 'f']
def getBool : Str → Option (Bool × Str)
  | [] => none
  | c :: r => if c = 't' then some (true, r) else if c = 'f' then some (false, r) else none

def putInt (i : Int) : Str := putBool (decide (i < 0)) ++ putNat i.natAbs
def getInt (x : Str) : Option (Int × Str) :=
  (getBool x).bind (fun p => (getNat p.2).map (fun q => ((if p.1 then -(q.1 : Int) else (q.1 : Int)), q.2)))

/-- length, then the characters as they are -/
def putStr (x : Str) : Str := putNat x.length ++ x
def getStr (x : Str) : Option (Str × Str) := (getNat x).map (fun p => (p.2.take p.1, p.2.drop p.1))

def putOpt {α : Type} (put : α → Str) : Option α → Str
  | none => ['n']
  | some a => 's' :: put a
def getOpt {α : Type} (get : Str → Option (α × Str)) : Str → Option (Option α × Str)
  | [] => none
  | c :: r => if c = 'n' then some (none, r) else if c = 's' then (get r).map (fun p => (some p.1, p.2)) else none

def putList {α : Type} (put : α → Str) : List α → Str
  | [] => ['.']
  | a :: as => ',' :: put a ++ putList put as
/-- `fuel` bounds the number of elements -/
def getList {α : Type} (get : Str → Option (α × Str)) : Nat → Str → Option (List α × Str)
  | 0, _ => none
  | _ + 1, [] => none
  | f + 1, c :: r =>
    if c = '.' then some ([], r)
    else if c = ',' then (get r).bind (fun p => (getList get f p.2).map (fun q => (p.1 :: q.1, q.2)))
    else none

def putPair {α β : Type} (pa : α → Str) (pb : β → Str) (x : α × β) : Str := pa x.1 ++ pb x.2
def getPair {α β : Type} (ga : Str → Option (α × Str)) (gb : Str → Option (β × Str)) (x : Str) : Option ((α × β) × Str) :=
  (ga x).bind (fun p => (gb p.2).map (fun q => ((p.1, q.1), q.2)))

mutual
  def putVal : Val → Str
    | .none => ['N']
    | .int i => 'I' :: putInt i
    | .bool b => 'B' :: putBool b
    | .str x => 'S' :: putStr x
    | .flt x => 'F' :: putStr x
    | .list l => 'L' :: putVals l
  def putVals : List Val → Str
    | [] => ['.']
    | v :: vs => ',' :: (putVal v ++ putVals vs)
end

mutual
  def getVal : Nat → Str → Option (Val × Str)
    | 0, _ => none
    | _ + 1, [] => none
    | f + 1, c :: r =>
      if c = 'N' then some (.none, r)
      else if c = 'I' then (getInt r).map (fun p => (.int p.1, p.2))
      else if c = 'B' then (getBool r).map (fun p => (.bool p.1, p.2))
      else if c = 'S' then (getStr r).map (fun p => (.str p.1, p.2))
      else if c = 'F' then (getStr r).map (fun p => (.flt p.1, p.2))
      else if c = 'L' then (getVals f r).map (fun p => (.list p.1, p.2))
      else none
  def getVals : Nat → Str → Option (List Val × Str)
    | 0, _ => none
    | _ + 1, [] => none
    | f + 1, c :: r =>
      if c = '.' then some ([], r)
      else if c = ',' then (getVal f r).bind (fun p => (getVals f p.2).map (fun q => (p.1 :: q.1, q.2)))
      else none
end

/-- the fields of a state, in order -/
abbrev Tup := Val × Bool × Vars × Bool × Bool × Option Str × Option Str × List (List Str) × List (Str × Str) × Str × Str ×
  Option Nat × Option Str

def toTup (st : EState) : Tup :=
  (st.data, st.isError, st.vars, st.volatile, st.caching, st.filename, st.extension, st.commands, st.attrs, st.query,
   st.status, st.errPos, st.errQuery)

def ofTup (t : Tup) : EState :=
  { data := t.1, isError := t.2.1, vars := t.2.2.1, volatile := t.2.2.2.1, caching := t.2.2.2.2.1, filename := t.2.2.2.2.2.1,
    extension := t.2.2.2.2.2.2.1, commands := t.2.2.2.2.2.2.2.1, attrs := t.2.2.2.2.2.2.2.2.1, query := t.2.2.2.2.2.2.2.2.2.1,
    status := t.2.2.2.2.2.2.2.2.2.2.1, errPos := t.2.2.2.2.2.2.2.2.2.2.2.1, errQuery := t.2.2.2.2.2.2.2.2.2.2.2.2 }

def putTup : Tup → Str :=
  putPair putVal <| putPair putBool <| putPair (putList (putPair putStr putVal)) <| putPair putBool <| putPair putBool <|
  putPair (putOpt putStr) <| putPair (putOpt putStr) <| putPair (putList (putList putStr)) <|
  putPair (putList (putPair putStr putStr)) <| putPair putStr <| putPair putStr <| putPair (putOpt putNat) (putOpt putStr)

def getTup (x : Str) : Option (Tup × Str) :=
  (getPair (getVal x.length) <| getPair getBool <| getPair (getList (getPair getStr (getVal x.length)) x.length) <|
   getPair getBool <| getPair getBool <| getPair (getOpt getStr) <| getPair (getOpt getStr) <|
   getPair (getList (getList getStr x.length) x.length) <| getPair (getList (getPair getStr getStr) x.length) <|
   getPair getStr <| getPair getStr <| getPair (getOpt getNat) (getOpt getStr)) x

end Ser

/-- the data token renders the whole state; the metadata carries what the cache code looks at -/
def codecT : StateCodec where
  enc st := { metadata := { query := st.query, status := st.status, typeId := "estate".toList, isError := st.isError,
                            attrs := st.attrs },
              data := some (Ser.putTup (Ser.toTup st)) }
  dec cs := match cs.data with
    | some d => (Ser.getTup d).map (fun p => Ser.ofTup p.1)
    | none => none
  typeId := "estate".toList

end Liquer
