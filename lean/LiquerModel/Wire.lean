/-
Wire format of the query AST for the line protocol (driver only; no theorem depends on it).
Prefix notation, space separated tokens, strings hex-encoded:
  query  := Q <abs:0|1> <n> seg*n
  seg    := T hdr <n> action*n <filename-hex | N>  |  R hdr <n> name-hex*n
  hdr    := N | H <name-hex> <level> <res:0|1> <n> param*n
  action := A <name-hex> <pos> <n> param*n
  param  := S <hex> <pos> | L <pos> query
-/
import LiquerModel.Ast
import LiquerModel.Proto

namespace Liquer.Wire
open Liquer Liquer.Proto

mutual
  def serParam : Param → List String
    | .str s pos => ["S", encChars s, toString pos]
    | .link q pos => ["L", toString pos] ++ serQuery q
  def serParams : List Param → List String
    | [] => []
    | p :: ps => serParam p ++ serParams ps
  def serAction : Action → List String
    | .mk n ps pos => ["A", encChars n, toString pos, toString (lenParams ps)] ++ serParams ps
  def serActions : List Action → List String
    | [] => []
    | a :: as => serAction a ++ serActions as
  def serHeader : Header → List String
    | .mk n l ps r => ["H", encChars n, toString l, if r then "1" else "0", toString (lenParams ps)] ++ serParams ps
  def serSeg : Seg → List String
    | .transform h as f =>
      ["T"] ++ (match h with | none => ["N"] | some h => serHeader h) ++ [toString (lenActions as)] ++ serActions as ++
        [match f with | none => "N" | some f => encChars f]
    | .resource h ns =>
      ["R"] ++ (match h with | none => ["N"] | some h => serHeader h) ++ [toString ns.length] ++ ns.map encChars
  def serSegs : List Seg → List String
    | [] => []
    | s :: ss => serSeg s ++ serSegs ss
  def serQuery : Query → List String
    | .mk segs a => ["Q", if a then "1" else "0", toString (lenSegs segs)] ++ serSegs segs
  def lenParams : List Param → Nat
    | [] => 0
    | _ :: ps => lenParams ps + 1
  def lenActions : List Action → Nat
    | [] => 0
    | _ :: ps => lenActions ps + 1
  def lenSegs : List Seg → Nat
    | [] => 0
    | _ :: ps => lenSegs ps + 1
end

def ser (q : Query) : String := String.intercalate " " (serQuery q)

/-! deserialisation: fuel = number of tokens -/

abbrev P (α : Type) := List String → Option (α × List String)

def repeatP {α} (p : P α) : Nat → P (List α)
  | 0, ts => some ([], ts)
  | n + 1, ts => match p ts with
    | none => none
    | some (a, ts) => match repeatP p n ts with
      | none => none
      | some (as, ts) => some (a :: as, ts)

def strP : P Str
  | t :: ts => (decChars t).map (fun s => (s, ts))
  | [] => none

mutual
  def deQuery : Nat → P Query
    | 0, _ => none
    | f + 1, "Q" :: a :: n :: ts =>
      match repeatP (deSeg f) n.toNat! ts with
      | some (segs, ts) => some (.mk segs (a == "1"), ts)
      | none => none
    | _, _ => none
  def deHeader : Nat → P (Option Header)
    | 0, _ => none
    | _ + 1, "N" :: ts => some (none, ts)
    | f + 1, "H" :: name :: lvl :: r :: n :: ts =>
      match decChars name, repeatP (deParam f) n.toNat! ts with
      | some nm, some (ps, ts) => some (some (.mk nm lvl.toNat! ps (r == "1")), ts)
      | _, _ => none
    | _, _ => none
  def deSeg : Nat → P Seg
    | 0, _ => none
    | f + 1, "T" :: ts =>
      match deHeader f ts with
      | some (h, n :: ts) =>
        (match repeatP (deAction f) n.toNat! ts with
         | some (as, fn :: ts) =>
           if fn == "N" then some (.transform h as none, ts)
           else (decChars fn).map (fun s => (.transform h as (some s), ts))
         | _ => none)
      | _ => none
    | f + 1, "R" :: ts =>
      match deHeader f ts with
      | some (h, n :: ts) =>
        (match repeatP strP n.toNat! ts with
         | some (ns, ts) => some (.resource h ns, ts)
         | none => none)
      | _ => none
    | _, _ => none
  def deAction : Nat → P Action
    | 0, _ => none
    | f + 1, "A" :: name :: pos :: n :: ts =>
      match decChars name, repeatP (deParam f) n.toNat! ts with
      | some nm, some (ps, ts) => some (.mk nm ps pos.toNat!, ts)
      | _, _ => none
    | _, _ => none
  def deParam : Nat → P Param
    | 0, _ => none
    | _ + 1, "S" :: s :: pos :: ts => (decChars s).map (fun s => (.str s pos.toNat!, ts))
    | f + 1, "L" :: pos :: ts =>
      match deQuery f ts with
      | some (q, ts) => some (.link q pos.toNat!, ts)
      | none => none
    | _, _ => none
end

def de (ts : List String) : Option Query :=
  match deQuery (ts.length + 1) ts with
  | some (q, []) => some q
  | _ => none

end Liquer.Wire
