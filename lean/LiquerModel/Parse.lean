/-
M2 (part 2): the pyparsing grammar of liquer/parser.py as a recursive-descent PEG.

Reading of pyparsing that this file encodes (validated by the C02 correspondence stream):
  * white space (`Gen.whiteChars`) is skipped before every terminal; `parseAll` skips trailing white space;
  * `MatchFirst` = first alternative that succeeds; `ZeroOrMore`/`Optional` are greedy, an iteration that
    fails restores the position of its start, and nothing ever back-tracks *into* a repetition;
  * `NotAny`/`FollowedBy` are look-aheads;
  * terminals are the regenerated regular expressions of `Gen/Terminals.lean`, entities the regenerated table;
  * `parse s` = `resource_transform_query` with `parseAll`, and on any failure `parse_query` with `parseAll`.
Fuel bounds the nesting of links and the number of loop iterations; `parse` supplies `length + 1`.
-/
import LiquerModel.Ast
import LiquerModel.Regex
import LiquerModel.Gen.Terminals
import LiquerModel.Gen.EscapeTable

namespace Liquer

/-- parser state: remaining input and absolute offset -/
structure PS where
  rest : List Char
  pos : Nat
  deriving Repr, Inhabited

namespace PS

def isWhite (c : Char) : Bool := Gen.whiteChars.contains c

def skipWs (s : PS) : PS :=
  let ws := s.rest.takeWhile isWhite
  { rest := s.rest.drop ws.length, pos := s.pos + ws.length }

/-- `Literal(l)` -/
def lit (l : List Char) (s : PS) : Option PS :=
  let s := s.skipWs
  if isPrefix l s.rest then some { rest := s.rest.drop l.length, pos := s.pos + l.length } else none

/-- `Regex(r)`: matched text and new state -/
def re (r : Re) (s : PS) : Option (List Char × PS) :=
  let s := s.skipWs
  match matchRe r s.rest with
  | some (m, rest) => some (m, { rest := rest, pos := s.pos + m.length })
  | none => none

end PS

open PS

/-- `entities`: first table entry whose literal is a prefix -/
def parseEntity (s : PS) : Option (List Char × PS) :=
  let s := s.skipWs
  match Gen.entityTable.find? (fun e => isPrefix e.1 s.rest) with
  | some e => some (e.2, { rest := s.rest.drop e.1.length, pos := s.pos + e.1.length })
  | none => none

/-- one iteration of `parameter_text | entities | percent_encoding` -/
def parseParamPiece (s : PS) : Option (List Char × PS) :=
  match s.re Gen.parameterTextRe with
  | some r => some r
  | none => match parseEntity s with
    | some r => some r
    | none => s.re Gen.percentEncodingRe

/-- `ZeroOrMore(parameter_text | entities | percent_encoding)`: concatenated raw tokens -/
def parseParamPieces : Nat → PS → List Char × PS
  | 0, s => ([], s)
  | n + 1, s =>
    match parseParamPiece s with
    | none => ([], s)
    | some (t, s1) =>
      if s1.rest.length < s.rest.length then
        let (ts, s2) := parseParamPieces n s1
        (t ++ ts, s2)
      else ([], s)

/-- strip the dashes of `-+…` and return (level, name) — `_segment_identifier_action` / `_resource_identifier_action` -/
def splitLevel (m : List Char) : Nat × List Char :=
  let d := m.takeWhile (· == '-')
  (d.length, m.drop d.length)

/-- `segment_identifier` : (level, name) -/
def parseSegIdent (s : PS) : Option ((Nat × Str) × PS) :=
  match s.re Gen.segmentIdentifierNamedRe with
  | some (m, s1) => some (splitLevel m, s1)
  | none =>
    match s.re Gen.segmentIdentifierBareRe with
    | some (m, s1) =>
      match s1.lit ['/'] with        -- FollowedBy("/")
      | some _ => some (splitLevel m, s1)
      | none => none
    | none => none

/-- `resource_identifier` : (level, name) with the `R` removed -/
def parseResIdent (s : PS) : Option ((Nat × Str) × PS) :=
  match s.re Gen.resourceIdentifierRe with
  | some (m, s1) =>
    let (lvl, rn) := splitLevel m
    some ((lvl, rn.drop 1), s1)
  | none => none

/-- `~(resource_identifier | segment_identifier)` succeeds? -/
def notSegStart (s : PS) : Bool :=
  (parseResIdent s).isNone && (parseSegIdent s).isNone

/-- `resource_path = delimitedList(resource_name, "/")` -/
def parseResNamesMore : Nat → PS → List Str × PS
  | 0, s => ([], s)
  | n + 1, s =>
    match s.lit ['/'] with
    | none => ([], s)
    | some s1 =>
      match s1.re Gen.resourceNameRe with
      | none => ([], s)
      | some (m, s2) =>
        let (ms, s3) := parseResNamesMore n s2
        (m :: ms, s3)

def parseResPath (s : PS) : Option (List Str × PS) :=
  match s.re Gen.resourceNameRe with
  | none => none
  | some (m, s1) =>
    let (ms, s2) := parseResNamesMore s1.rest.length s1
    some (m :: ms, s2)

/-- `Word("-")` -/
def parseDashes (s : PS) : Option PS :=
  let s := s.skipWs
  let d := s.rest.takeWhile (· == '-')
  if d.isEmpty then none else some { rest := s.rest.drop d.length, pos := s.pos + d.length }

mutual
  /-- `parameter = expand_entity | ZeroOrMore(...)` -/
  def parseParameter (dec : List UInt8 → List Char) : Nat → PS → Option (Param × PS)
    | 0, _ => none
    | n + 1, s =>
      let s0 := s.skipWs
      let link : Option (Param × PS) :=
        match s0.lit Gen.linkOpen with
        | none => none
        | some s1 =>
          match parseQuery dec n s1 with
          | none => none
          | some (q, s2) =>
            match s2.lit Gen.linkClose with
            | none => none
            | some s3 => some (.link q s0.pos, s3)
      match link with
      | some r => some r
      | none =>
        let (raw, s1) := parseParamPieces s0.rest.length s0
        -- the parse action of the `ZeroOrMore` alternative receives the location *before* white space
        some (.str (unquote dec raw) s.pos, s1)

  /-- `ZeroOrMore(sep + parameter)` with `sep` = `Literal("-")` (`wide = false`) or `Word("-")` (`wide = true`) -/
  def parseDashParams (dec : List UInt8 → List Char) (wide : Bool) : Nat → PS → List Param × PS
    | 0, s => ([], s)
    | n + 1, s =>
      match (if wide then parseDashes s else s.lit ['-']) with
      | none => ([], s)
      | some s1 =>
        match parseParameter dec n s1 with
        | none => ([], s)
        | some (p, s2) =>
          let (ps, s3) := parseDashParams dec wide n s2
          (p :: ps, s3)

  /-- `action_request = identifier + ZeroOrMore("-" + parameter)` -/
  def parseAction (dec : List UInt8 → List Char) : Nat → PS → Option (Action × PS)
    | 0, _ => none
    | n + 1, s =>
      let s0 := s.skipWs
      match s0.re Gen.identifierRe with
      | none => none
      | some (name, s1) =>
        let (ps, s2) := parseDashParams dec false n s1
        some (.mk name ps s0.pos, s2)

  /-- `ZeroOrMore(action_request + ("/" + ~(resource_identifier | segment_identifier)))` -/
  def parseActionsSlash (dec : List UInt8 → List Char) : Nat → PS → List Action × PS
    | 0, s => ([], s)
    | n + 1, s =>
      match parseAction dec n s with
      | none => ([], s)
      | some (a, s1) =>
        match s1.lit ['/'] with
        | none => ([], s)
        | some s2 =>
          if notSegStart s2 then
            let (as, s3) := parseActionsSlash dec n s2
            (a :: as, s3)
          else ([], s)

  /-- `action_path_nonempty`: (actions, filename?) -/
  def parseActionPath (dec : List UInt8 → List Char) : Nat → PS → Option ((List Action × Option Str) × PS)
    | 0, _ => none
    | n + 1, s =>
      let (as, s1) := parseActionsSlash dec n s
      match s1.re Gen.filenameRe with
      | some (f, s2) => some ((as, some f), s2)
      | none =>
        match parseAction dec n s1 with
        | some (a, s2) => some ((as ++ [a], none), s2)
        | none => none

  /-- `segment_with_header` -/
  def parseSegWithHeader (dec : List UInt8 → List Char) : Nat → PS → Option (Seg × PS)
    | 0, _ => none
    | n + 1, s =>
      match parseSegIdent s with
      | none => none
      | some ((lvl, name), s1) =>
        let (ps, s2) := parseDashParams dec false n s1
        let hdr := Header.mk name lvl ps false
        let body : Option ((List Action × Option Str) × PS) :=
          match s2.lit ['/'] with
          | none => none
          | some s3 => parseActionPath dec n s3
        match body with
        | some ((as, f), s4) => some (.transform (some hdr) as f, s4)
        | none => some (.transform (some hdr) [] none, s2)

  /-- `resource_segment_with_header` -/
  def parseResSegWithHeader (dec : List UInt8 → List Char) : Nat → PS → Option (Seg × PS)
    | 0, _ => none
    | n + 1, s =>
      match parseResIdent s with
      | none => none
      | some ((lvl, name), s1) =>
        let (ps, s2) := parseDashParams dec true n s1
        let hdr := Header.mk name lvl ps true
        let path : Option (List Str × PS) :=
          match s2.lit ['/'] with
          | none => none
          | some s3 => parseResPath s3
        match path with
        | some (names, s4) => some (.resource (some hdr) names, s4)
        | none => some (.resource (some hdr) [], s2)

  /-- `query_segment = segment_with_header | segment_without_header | resource_segment_with_header` -/
  def parseSegment (dec : List UInt8 → List Char) : Nat → PS → Option (Seg × PS)
    | 0, _ => none
    | n + 1, s =>
      match parseSegWithHeader dec n s with
      | some r => some r
      | none =>
        match parseActionPath dec n s with
        | some ((as, f), s1) => some (.transform none as f, s1)
        | none => parseResSegWithHeader dec n s

  /-- `ZeroOrMore("/" + query_segment)` -/
  def parseSegmentsMore (dec : List UInt8 → List Char) : Nat → PS → List Seg × PS
    | 0, s => ([], s)
    | n + 1, s =>
      match s.lit ['/'] with
      | none => ([], s)
      | some s1 =>
        match parseSegment dec n s1 with
        | none => ([], s)
        | some (g, s2) =>
          let (gs, s3) := parseSegmentsMore dec n s2
          (g :: gs, s3)

  /-- `parse_query = Optional("/") + delimitedList(query_segment, "/")` -/
  def parseQuery (dec : List UInt8 → List Char) : Nat → PS → Option (Query × PS)
    | 0, _ => none
    | n + 1, s =>
      let (abs, s1) := match s.lit ['/'] with
        | some s1 => (true, s1)
        | none => (false, s)
      match parseSegment dec n s1 with
      | none => none
      | some (g, s2) =>
        let (gs, s3) := parseSegmentsMore dec n s2
        some (.mk (g :: gs) abs, s3)
end

/-- `resource_transform_query` -/
def parseRTQ (dec : List UInt8 → List Char) (fuel : Nat) (s : PS) : Option (Query × PS) :=
  let (abs, s1) := match s.lit ['/'] with
    | some s1 => (true, s1)
    | none => (false, s)
  match parseResPath s1 with
  | none => none
  | some (names, s2) =>
    match s2.lit ['/'] with
    | none => none
    | some s3 =>
      match parseSegWithHeader dec fuel s3 with
      | none => none
      | some (t, s4) => some (.mk [.resource none names, t] abs, s4)

def atEnd (s : PS) : Bool := s.skipWs.rest.isEmpty

/-- enough fuel for any input of this length: every loop iteration and every nesting level consumes input
or descends one of a bounded number of grammar levels -/
def parseFuel (s : List Char) : Nat := 8 * s.length + 16

/-- `str.expandtabs()` (tab size 8), which pyparsing's `parseString` applies first -/
def expandTabs : Nat → List Char → List Char
  | _, [] => []
  | col, c :: cs =>
    if c == '\t' then List.replicate (8 - col % 8) ' ' ++ expandTabs 0 cs
    else if c == '\n' || c == '\r' then c :: expandTabs 0 cs
    else c :: expandTabs (col + 1) cs

/-- `liquer.parser.parse` -/
def parse (dec : List UInt8 → List Char) (text0 : List Char) : Option Query :=
  let text := expandTabs 0 text0
  let s : PS := { rest := text, pos := 0 }
  let fuel := parseFuel text
  match parseRTQ dec fuel s with
  | some (q, s1) => if atEnd s1 then some q else
      (match parseQuery dec fuel s with
       | some (q, s1) => if atEnd s1 then some q else none
       | none => none)
  | none =>
    match parseQuery dec fuel s with
    | some (q, s1) => if atEnd s1 then some q else none
    | none => none

end Liquer
