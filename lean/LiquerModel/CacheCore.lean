/-
M4 (core): vocabulary shared by every cache model, and the specification `KV`.

A cache maps query text (any string) to a state = metadata + data. Values are abstract tokens
(`Str`); serialisation by the state type is a parameter of the file/SQL/store-backed models.
-/
import LiquerModel.StoreCore

namespace Liquer

/-- the metadata fields the cache code itself looks at, plus an abstract token for the rest -/
structure CMeta where
  query : Str
  status : Str                      -- "ready", "error", "evaluation", "evaluating parent", …
  typeId : Str                      -- `type_identifier`, selects the codec / data file extension
  isError : Bool := false
  attrs : List (Str × Str) := []    -- `attributes` (value rendered as text; "True"/"False" for booleans)
  rest : Str := []                  -- everything else, opaque
  deriving DecidableEq, Repr, Inhabited

/-- `State`: metadata and data (`none` = Python `None`) -/
structure CState where
  metadata : CMeta
  data : Option Str
  deriving DecidableEq, Repr, Inhabited

def ready : Str := "ready".toList

/-- result of `store`: the Python methods return `True`, `False` or `None` -/
inductive StoreRes where
  | true | false | none
  deriving DecidableEq, Repr, Inhabited

/-- a cache model over a state type `σ`; every operation returns the new state (reads too: some
back-ends memoise, e.g. the SQL key list) -/
structure CacheOps (σ : Type) where
  get : σ → Str → σ × Option CState
  getMeta : σ → Str → σ × Option CMeta
  store : σ → CState → σ × StoreRes
  storeMeta : σ → CMeta → σ × Bool
  remove : σ → Str → σ × Bool
  contains : σ → Str → σ × Bool
  keys : σ → σ × List Str
  clean : σ → σ

inductive CacheOp where
  | get (k : Str) | getMeta (k : Str) | store (s : CState) | storeMeta (m : CMeta)
  | remove (k : Str) | contains (k : Str) | keys | clean
  deriving DecidableEq, Repr, Inhabited

/-- canonical observation of one operation -/
inductive CacheOut where
  | state (s : Option CState) | metadata (m : Option CMeta) | res (r : StoreRes) | bool (b : Bool)
  | keys (ks : List Str) | unit
  deriving DecidableEq, Repr, Inhabited

def CacheOps.step {σ} (C : CacheOps σ) (s : σ) : CacheOp → σ × CacheOut
  | .get k => let (s, r) := C.get s k; (s, .state r)
  | .getMeta k => let (s, r) := C.getMeta s k; (s, .metadata r)
  | .store st => let (s, r) := C.store s st; (s, .res r)
  | .storeMeta m => let (s, r) := C.storeMeta s m; (s, .bool r)
  | .remove k => let (s, r) := C.remove s k; (s, .bool r)
  | .contains k => let (s, r) := C.contains s k; (s, .bool r)
  | .keys => let (s, r) := C.keys s; (s, .keys r)
  | .clean => (C.clean s, .unit)

def CacheOps.run {σ} (C : CacheOps σ) (s : σ) : List CacheOp → σ × List CacheOut
  | [] => (s, [])
  | op :: rest =>
    let (s1, o) := C.step s op
    let (s2, os) := C.run s1 rest
    (s2, o :: os)

/-! ### the specification: a finite map from key to (metadata, optional data) -/

abbrev KV := List (Str × CMeta × Option Str)

def KV.get (kv : KV) (k : Str) : Option (CMeta × Option Str) := (kv.find? (fun e => e.1 == k)).map (·.2)
def KV.erase (kv : KV) (k : Str) : KV := kv.filter (fun e => e.1 != k)
def KV.set (kv : KV) (k : Str) (m : CMeta) (d : Option Str) : KV := (k, m, d) :: kv.erase k

/-- the reference cache: `store` files the state under its own `metadata.query` with status ready;
`storeMeta` files metadata only (no data retrievable); `get` serves only ready entries that have data -/
def kvOps : CacheOps KV where
  get kv k := (kv, match kv.get k with
    | some (m, some d) => if m.status == ready then some { metadata := m, data := some d } else none
    | _ => none)
  getMeta kv k := (kv, (kv.get k).map (·.1))
  store kv st :=
    if st.metadata.isError then (kv, .none)
    else (kv.set st.metadata.query { st.metadata with status := ready } st.data, .true)
  storeMeta kv m := (kv.set m.query m none, true)
  remove kv k := (kv.erase k, true)
  contains kv k := (kv, (kv.get k).isSome)
  keys kv := (kv, kv.map (·.1))
  clean _ := []

end Liquer
