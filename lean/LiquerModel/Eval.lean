/-
M3 (part 4): `Context.evaluate` / `evaluate_action` / `evaluate_parameter` / `apply`, over a cache that is
the KV specification instantiated at evaluator states, with a call log of the instrumented commands.

What is mirrored (mechanism, not intent):
  * progress metadata (`store_metadata`) goes to the cache of the evaluation (none when an input value is injected), under the as-typed text at the top level;
  * the recursion on (predecessor, last step); look-up under `query.encode()`; the as-typed text as key
    of progress metadata at the top level and the canonical prefix below;
  * links and sub-evaluations from commands go through the *global* cache even when the evaluation itself
    runs on `NoCache` (`evaluate_on`, injected input value);
  * relative links re-parse `parent_query` text (`parse(parent_query) + tq` then `.encode()` then `parse`);
  * exception capture in `evaluate_action`, error propagation by `next_state`, link-argument failures raised
    out of `evaluate`; the admission test `caching ∧ ¬error ∧ ¬volatile`.
Header names of transform segments play no role in evaluation (as in the code).
-/
import LiquerModel.Vocab
import LiquerModel.Parse
import LiquerModel.Gen.EscapeTable

namespace Liquer

structure EState where
  data : Val := .none
  isError : Bool := false
  vars : Vars := []
  volatile : Bool := false
  caching : Bool := true
  filename : Option Str := none
  extension : Option Str := none
  commands : List (List Str) := []
  attrs : List (Str × Str) := []       -- `attributes` except `volatile`
  query : Str := []
  status : Str := []
  errPos : Option Nat := none          -- position / query the failure is reported with
  errQuery : Option Str := none
  deriving Repr, Inhabited

/-- result of one `evaluate` call -/
inductive Outcome where
  | st (s : EState)
  | raised (pos : Option Nat) (query : Option Str)   -- EvaluationException out of evaluate (failed link argument)
  | parseError                                       -- the text does not parse: ParseException out of evaluate
  | unmodelled
  deriving Repr, Inhabited

def statusReady : Str := "ready".toList

/-- cache entry: metadata status and (for `store`d entries) the state -/
structure Entry where
  status : Str
  st : Option EState
  deriving Repr, Inhabited

/-- the world threaded through an evaluation: the *global* cache (`get_cache()`) and the call log.
`metaKeepsData`: what `store_metadata` does to an entry that already has data — keep it and only replace the
metadata (memory and file caches) or replace the whole record (SQL with delete-before-insert). -/
structure World where
  cache : List (Str × Entry) := []
  enabled : Bool := true               -- `false`: the global cache is `NoCache()`
  metaKeepsData : Bool := true
  calls : List Str := []               -- call log, most recent last
  deriving Repr, Inhabited

def World.entry (w : World) (k : Str) : Option Entry := (w.cache.find? (fun e => e.1 == k)).map (·.2)

/-- `cache.get(key)`: only entries that were `store`d and whose metadata says `statusReady` -/
def World.get (w : World) (k : Str) : Option EState :=
  match w.entry k with
  | some { status := st, st := some s } => if st == statusReady then some s else none
  | _ => none

def World.put (w : World) (k : Str) (e : Entry) : World :=
  if !w.enabled then w else
  { w with cache := (k, e) :: w.cache.filter (fun x => x.1 != k) }

/-- `cache.store_metadata(metadata)` -/
def World.storeMeta (w : World) (k : Str) (status : Str) : World :=
  match w.entry k with
  | some e => w.put k { status := status, st := if w.metaKeepsData then e.st else none }
  | none => w.put k { status := status, st := none }

def World.store (w : World) (s : EState) : World := w.put s.query { status := statusReady, st := some { s with status := statusReady } }

def World.remove (w : World) (k : Str) : World := { w with cache := w.cache.filter (fun x => x.1 != k) }

def World.log (w : World) (c : Str) : World := { w with calls := w.calls ++ [c] }

/-- extra parameters of the top-level call -/
inductive Extra where
  | none
  | list (vs : List Val)
  | dict (kv : List (Str × Val))
  deriving Repr, Inhabited

def Extra.isEmpty : Extra → Bool
  | .none => true
  | .list vs => vs.isEmpty
  | .dict kv => kv.isEmpty

structure Env where
  reg : Registry
  defaults : Vars                     -- `liquer.state._vars`
  dec : List UInt8 → List Char

/-- `Query.predecessor()`: `none` = `(None, None)`; the remainder is `none` for an action-less, file-less last segment -/
def Query.predecessor : Query → Option (Query × Option Seg)
  | .mk segs a =>
    match segs.reverse with
    | .transform h as (some f) :: front =>
      let p := Seg.transform h as none
      let r := Seg.transform h [] (some f)
      if as.isEmpty then some (.mk front.reverse a, some r) else some (.mk (front.reverse ++ [p]) a, some r)
    | .transform h as none :: front =>
      (match as.reverse with
       | last :: init =>
         let p := Seg.transform h init.reverse none
         let r := Seg.transform h [last] none
         if init.isEmpty then some (.mk front.reverse a, some r) else some (.mk (front.reverse ++ [p]) a, some r)
       | [] => some (.mk front.reverse a, none))
    | _ => none

def lowerStr (s : Str) : Str := s.map asciiLower

/-- `filename.split(".")[-1].lower()` -/
def extensionOf (f : Str) : Str := lowerStr ((splitOnChar '.' f).getLast?.getD [])

/-- `ActionRequest.to_list()` -/
def Action.toList (tbl : EscTable) : Action → List Str
  | .mk n ps _ => n :: ps.map (fun p => match p with
      | .str s _ => s
      | .link q _ => ['~', 'X', '~'] ++ q.encode tbl ++ ['~', 'E'])

def callText (ns name : Str) (input : Val) (args : List Val) : Str :=
  ns ++ ['.'] ++ name ++ ['('] ++ input.canon ++ [';'] ++ Val.canonList args ++ [')']

def isLibraryCommand (n : Str) : Bool :=
  n == s "let" || n == s "flag" || n == s "state_variable" || n == s "ns"

def namespacesOf (vars : Vars) : Option (List Str) :=
  match vars.get (s "active_namespaces") with
  | none => some [s "root"]
  | some (.list l) => l.mapM (fun v => match v with | .str x => some x | _ => none)
  | some _ => none

def isUpperFirst (k : Str) : Bool := match k with | c :: _ => 'A' ≤ c && c ≤ 'Z' | [] => false

/-- attributes other than `volatile` after an action: capitalised ones inherited, the command's own on top -/
def mergeAttrs (inherited : List (Str × Str)) (cmd : List (Str × Str)) : List (Str × Str) :=
  let keep := inherited.filter (fun kv => isUpperFirst kv.1)
  let cmd := cmd.filter (fun kv => kv.1 != s "volatile")
  cmd.foldl (fun acc kv => if acc.any (fun x => x.1 == kv.1) then acc.map (fun x => if x.1 == kv.1 then kv else x) else acc ++ [kv]) keep

def cmdVolatile (cmd : List (Str × Str)) : Bool := cmd.any (fun kv => kv.1 == s "volatile" && kv.2 == s "True")

mutual
  /-- `Context.evaluate(text)`: parse, then evaluate -/
  def evalText (env : Env) : Nat → World → Str → Bool → World × Outcome
    | 0, w, _, _ => (w, .unmodelled)
    | n + 1, w, text, useGlobal =>
      match parse env.dec text with
      | none => (w, .parseError)
      | some q => evalQ env n w q text .none none useGlobal

  /-- `Context.evaluate(query)` with `rawQuery` the text metadata is filed under; `useCache = false` models the
  `NoCache()` that an injected input value / `evaluate_on` selects for this chain of predecessors -/
  def evalQ (env : Env) : Nat → World → Query → Str → Extra → Option Val → Bool → World × Outcome
    | 0, w, _, _, _, _, _ => (w, .unmodelled)
    | n + 1, w, q, rawQuery, extra, input, useCache =>
      let tbl := Gen.escapeTable
      let key := q.encode tbl
      let hit : Option EState := if extra.isEmpty && input.isNone && useCache then w.get key else none
      match hit with
      | some st => (w, .st st)
      | none =>
        match q with
        | .mk [.resource _ _] _ => (w, .unmodelled)       -- resource queries: C08/C17 harnesses, not this model
        | _ =>
        -- predecessor
        let (w1, pre) : World × Outcome × Str × Option Seg :=
          match q.predecessor with
          | none => (w, .st { vars := env.defaults, data := input.getD .none }, [], none)
          | some (p, r) =>
            if p.segments.isEmpty then (w, .st { vars := env.defaults, data := input.getD .none }, [], r)
            else
              let pk := p.encode tbl
              let w0 := if useCache then w.storeMeta rawQuery (s "evaluating parent") else w
              let (w1, o) := evalQ env n w0 p pk .none input useCache
              (w1, o, pk, r)
        let (o, parentQuery, r) := pre
        match o with
        | .raised a b => (w1, .raised a b)
        | .parseError => (w1, .parseError)
        | .unmodelled => (w1, .unmodelled)
        | .st st =>
          if st.isError then
            let w2 := if useCache then w1.storeMeta rawQuery (s "error") else w1
            (w2, .st { st with data := .none, query := key })
          else
            match r with
            | none => (w1, .st { st with query := key })
            | some (.transform _ [] (some f)) =>
              -- file name step
              let st2 := { st with filename := some f, extension := some (extensionOf f), query := key }
              let w1 := if useCache then w1.storeMeta rawQuery (s "evaluation") else w1
              let w2 := if !useCache then w1
                        else if st2.caching && !st2.volatile then w1.store st2 else w1.remove key
              (w2, .st st2)
            | some (.transform _ [a] none) =>
              let (w2, o2) := evalAction env n w1 st a rawQuery parentQuery extra useCache
              (match o2 with
               | .st st2 =>
                 let st3 := { st2 with query := key }
                 let w3 := if !useCache then w2
                           else if st3.caching && !st3.isError && !st3.volatile then w2.store st3
                           else if st3.isError then w2.storeMeta key (s "error")
                           else w2.remove key
                 (w3, .st st3)
               | other => (w2, other))
            | some _ => (w1, .unmodelled)

  /-- `Context.evaluate_action` for a command action -/
  def evalAction (env : Env) : Nat → World → EState → Action → Str → Str → Extra → Bool → World × Outcome
    | 0, w, _, _, _, _, _, _ => (w, .unmodelled)
    | n + 1, w, st, act, rawQuery, parentQuery, extra, useCache =>
      let tbl := Gen.escapeTable
      let w := if useCache then w.storeMeta rawQuery (s "evaluation") else w
      let cmds := [act.toList tbl]
      let failAt (w : World) (attrs : List (Str × Str)) (vol : Bool) (pos : Option Nat) (q : Option Str) : World × Outcome :=
        ((if useCache then w.storeMeta rawQuery (s "error") else w), .st { st with data := .none, isError := true, status := s "error", commands := cmds, attrs := attrs, volatile := st.volatile || vol, errPos := pos, errQuery := q })
      let failState (w : World) (attrs : List (Str × Str)) (vol : Bool) : World × Outcome :=
        failAt w attrs vol (some act.pos) (some rawQuery)
      match namespacesOf st.vars with
      | none => (w, .unmodelled)
      | some nss =>
        if !(nss.getLast?.map env.reg.hasNs).getD false then (w, .unmodelled) else
        match resolve env.reg nss act.name with
        | none => failState w (mergeAttrs st.attrs []) false
        | some sig =>
          -- parameters, left to right
          match evalParams env n w act.params rawQuery parentQuery with
          | (w1, .inr o) => (w1, o)
          | (w1, .inl given) =>
            let (given, kwargs, extraVol) : List PVal × List (Str × Val) × Bool :=
              match extra with
              | .none => (given, [], false)
              | .list vs => if vs.isEmpty then (given, [], false) else (given ++ vs.map .raw, [], true)
              | .dict kv => if kv.isEmpty then (given, [], false) else (given, kv, true)
            let attrs := mergeAttrs st.attrs sig.attrs
            match parseArgv sig.args given kwargs with
            | .unmodelled => (w1, .unmodelled)
            | .fail => failState w1 attrs (extraVol || cmdVolatile sig.attrs)
            | .ok args =>
              -- only the harness' own commands are instrumented; let/flag/state_variable/ns belong to the library
              let w2 := if isLibraryCommand sig.name then w1
                        else w1.log (callText sig.ns sig.name (if sig.first then .none else st.data) args)
              let done (w : World) (v : Val) (vars : Vars) (caching : Bool) : World × Outcome :=
                ((if useCache then w.storeMeta rawQuery statusReady else w), .st { st with data := v, vars := st.vars.update vars, status := statusReady, commands := cmds, attrs := attrs, caching := caching && st.caching, volatile := st.volatile || extraVol || cmdVolatile sig.attrs })
              match cmdSem sig.ns sig.name st.data st.vars args with
              | .unmodelled => (w2, .unmodelled)
              | .raises => failState w2 attrs (extraVol || cmdVolatile sig.attrs)
              | .value v => done w2 v [] true
              | .stateVars v vars => done w2 v vars true
              | .nocache v => done w2 v [] false
              | .subeval x qtext =>
                -- `context.evaluate(q)` from inside the command: a child context on the global cache
                let (w3, o) := evalText env n w2 qtext true
                (match o with
                 | .st sub =>
                   -- a failing sub-evaluation is reported with the position / query of *its* failing action
                   if sub.isError then failAt w3 attrs extraVol sub.errPos sub.errQuery else done w3 (.list [x, sub.data]) [] true
                 | .parseError => failState w3 attrs extraVol
                 | .raised _ _ => (w3, .unmodelled)
                 | .unmodelled => (w3, .unmodelled))

  /-- `evaluate_parameter` over the parameter list: converted parameters, or the outcome that aborts the evaluation -/
  def evalParams (env : Env) : Nat → World → List Param → Str → Str → World × (List PVal ⊕ Outcome)
    | 0, w, _, _, _ => (w, .inr .unmodelled)
    | _ + 1, w, [], _, _ => (w, .inl [])
    | n + 1, w, p :: ps, rawQuery, parentQuery =>
      match p with
      | .str t pos =>
        (match evalParams env n w ps rawQuery parentQuery with
         | (w1, .inl rest) => (w1, .inl (.text t pos :: rest))
         | other => other)
      | .link lq pos =>
        let tbl := Gen.escapeTable
        -- links are evaluated by a child context on the global cache
        let wg := w
        let (w1, o) : World × Outcome :=
          if lq.absolute || parentQuery.isEmpty || parentQuery == ['/'] then
            evalQ env n wg lq (lq.encode tbl) .none none true
          else
            match lq with
            | .mk [.transform h as f] _ =>
              -- `(parse(self.parent_query) + tq).encode()` then `evaluate(text)`
              (match parse env.dec parentQuery with
               | none => (wg, .unmodelled)
               | some pq =>
                 let text := (Query.mk (pq.segments ++ [.transform h as f]) pq.absolute).encode tbl
                 evalText env n wg text true)
            | _ => (wg, .unmodelled)      -- "Only transform query supported in apply" (raises a plain Exception)
        match o with
        | .st v =>
          if v.isError then (w1, .inr (.raised (some pos) (some rawQuery)))
          else
            (match evalParams env n w1 ps rawQuery parentQuery with
             | (w2, .inl rest) => (w2, .inl (.expanded v.data pos :: rest))
             | other => other)
        | .raised a b => (w1, .inr (.raised a b))
        | .parseError => (w1, .inr .parseError)
        | .unmodelled => (w1, .inr .unmodelled)
end

/-- fuel that suffices for a query text of this size (every level consumes at least one character of it, links re-evaluate prefixes) -/
def evalFuel (text : Str) : Nat := 40 * (text.length + 4) * (text.length + 4)

end Liquer
