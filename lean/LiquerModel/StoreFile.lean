/-
M5: `liquer.store.FileStore` over a small POSIX tree model, and the path arithmetic of
`path_for_key` / `metadata_path_for_key` (C17 b).  The model is of the code **with the D4 fix**
(`FileStore.check_key`): a key that starts with `/` or has a `..` component is refused by both
functions, and a key that denotes the root directory itself has no metadata path.

* A `Path` is the list of components below `/`; `[]` is `/` itself, which always exists as a directory.
* A node is a data file, a metadata file (its JSON text is not modelled: the content is the `UMeta`
  value) or a directory.
* `pathlib` semantics used by `FileStore`: `root / key` splits the key on `/`, drops empty and `.`
  components, an absolute key replaces `root`, `..` is kept lexically and resolved by the operating
  system when the path is used (modelled as popping one component; symbolic links are not modelled);
  `.parent` / `.name` are lexical.
* "absent" covers both ENOENT and ENOTDIR (an ancestor that is a regular file), except in `unlink`, where
  `FileStore.remove` ignores only the former.
-/
import LiquerModel.StoreCore
import LiquerModel.Paths

namespace Liquer

abbrev Path := List Str

inductive PNode where
  | dfile (d : Data)
  | mfile (m : UMeta)
  | dir
  deriving DecidableEq, Repr, Inhabited

/-- association list, at most one binding per path -/
abbrev PFS := List (Path × PNode)

def metaDirName : Str := "__metadata__".toList
def jsonExt : Str := ".json".toList

/-! ### keys as strings: `str.split("/")` and pathlib's lexical join -/

/-- `key.split("/")` -/
def splitSlash : List Char → List Str
  | [] => [[]]
  | c :: cs =>
    match splitSlash cs with
    | [] => [[]]
    | w :: ws => if c = '/' then [] :: w :: ws else (c :: w) :: ws

/-- the key (given as `key.split("/")`) starts with `/` -/
def compsAbsolute : List Str → Bool
  | [] :: _ :: _ => true
  | _ => false

/-- the parts pathlib keeps: empty and `.` components vanish -/
def compsParts (cs : List Str) : List Str := cs.filter (fun c => c != [] && c != dot)

/-- `FileStore.check_key(key)` -/
def compsOK (cs : List Str) : Bool := !compsAbsolute cs && !(compsParts cs).contains dotdot

/-- `FileStore.check_key(key, with_metadata=True)` -/
def compsMetaOK (cs : List Str) : Bool := compsOK cs && !(compsParts cs).isEmpty

/-- what the operating system does with the remaining `..` parts -/
def osResolve (base : Path) (parts : List Str) : Path :=
  parts.foldl (fun acc c => if c == dotdot then acc.dropLast else acc ++ [c]) base

def lexBase (root : Path) (cs : List Str) : Path := if compsAbsolute cs then [] else root

/-- the file `self.path / key` denotes -/
def pathOfC (root : Path) (cs : List Str) : Path := osResolve (lexBase root cs) (compsParts cs)

/-- the file `p.parent / "__metadata__" / (p.name + ".json")` denotes, `p = self.path / key` -/
def metaPathOfC (root : Path) (cs : List Str) : Path :=
  let parts := compsParts cs
  match parts.getLast? with
  | some nm => osResolve (lexBase root cs) (parts.dropLast ++ [metaDirName, nm ++ jsonExt])
  | none => (lexBase root cs).dropLast ++ [metaDirName, keyName (lexBase root cs) ++ jsonExt]

def keyOK (key : List Char) : Bool := compsOK (splitSlash key)
def metaKeyOK (key : List Char) : Bool := compsMetaOK (splitSlash key)
def pathOf (root : Path) (key : List Char) : Path := pathOfC root (splitSlash key)
def metaPathOf (root : Path) (key : List Char) : Path := metaPathOfC root (splitSlash key)

/-- a key string as the component list the store models take (`""` is the root key `[]`) -/
def keyOfString (key : List Char) : Key := if key.isEmpty then [] else splitSlash key

/-- `p` is `root` or lies below it -/
def within (root p : Path) : Bool := root.isPrefixOf p

/-! ### POSIX primitives -/

namespace PFS

def get (fs : PFS) (p : Path) : Option PNode :=
  if p.isEmpty then some .dir else (fs.find? (fun kv => kv.1 == p)).map (·.2)
def erase (fs : PFS) (p : Path) : PFS := fs.filter (fun kv => kv.1 != p)
def set (fs : PFS) (p : Path) (n : PNode) : PFS := (p, n) :: fs.erase p
def existsB (fs : PFS) (p : Path) : Bool := (fs.get p).isSome
def isDirB (fs : PFS) (p : Path) : Bool := fs.get p == some .dir

/-- `iterdir` (names) -/
def iterdir (fs : PFS) (p : Path) : List Str :=
  (fs.filter (fun kv => !kv.1.isEmpty && kv.1.dropLast == p)).map (fun kv => keyName kv.1)

/-- `mkdir(parents=True, exist_ok=True)` -/
def mkdirP (fs : PFS) (p : Path) : Except StoreErr PFS :=
  (ancestors p ++ (if p.isEmpty then [] else [p])).foldlM (fun f a =>
    match f.get a with
    | none => .ok (f.set a .dir)
    | some .dir => .ok f
    | some _ => .error .other) fs

/-- `write_bytes` / `open(p, "w")`: the parent must be a directory, `p` must not be one -/
def write (fs : PFS) (p : Path) (n : PNode) : Except StoreErr PFS :=
  match fs.get p with
  | some .dir => .error .other
  | _ => if fs.isDirB p.dropLast then .ok (fs.set p n) else .error .other

/-- some proper ancestor of `p` is a regular file (ENOTDIR) -/
def fileOnWay (fs : PFS) (p : Path) : Bool :=
  (ancestors p).any (fun a => match fs.get a with
    | some .dir => false
    | some _ => true
    | none => false)

/-- `unlink`: `.keyNotFound` stands for `FileNotFoundError` (callers ignore it); `NotADirectoryError` is not ignored -/
def unlink (fs : PFS) (p : Path) : Except StoreErr PFS :=
  match fs.get p with
  | none => if fs.fileOnWay p then .error .other else .error .keyNotFound
  | some .dir => .error .other
  | some _ => .ok (fs.erase p)

def unlinkMissingOk (fs : PFS) (p : Path) : Except StoreErr PFS :=
  match unlink fs p with
  | .error .keyNotFound => .ok fs
  | r => r

def rmdir (fs : PFS) (p : Path) : Except StoreErr PFS :=
  if p.isEmpty then .error .other else
  match fs.get p with
  | some .dir => if (fs.iterdir p).isEmpty then .ok (fs.erase p) else .error .other
  | _ => .error .other

end PFS

/-! ### `FileStore(root)` -/

namespace File

/-- lexical `.name` of `root / key` once the guard has passed (so the key is relative) -/
def lexName (root : Path) (k : Key) : Str := keyName (root ++ compsParts k)

/-- `path_for_key` -/
def path (root : Path) (k : Key) : Except StoreErr Path :=
  if !compsOK k then .error .keyNotSupported
  else if k.isEmpty then .ok root
  else if lexName root k == metaDirName then .error .other      -- `assert p.name != self.METADATA`
  else .ok (pathOfC root k)

/-- `metadata_path_for_key` -/
def metaPath (root : Path) (k : Key) : Except StoreErr Path :=
  if !compsMetaOK k then .error .keyNotSupported
  else if lexName root k == metaDirName then .error .other
  else .ok (metaPathOfC root k)

def contains (root : Path) (fs : PFS) (k : Key) : Except StoreErr Bool :=
  if k.isEmpty then .ok true else do
    let p ← path root k
    pure (fs.existsB p)

def isDir (root : Path) (fs : PFS) (k : Key) : Except StoreErr Bool :=
  if k.isEmpty then .ok true else do
    let p ← path root k
    pure (fs.isDirB p)

def listdir (root : Path) (fs : PFS) (k : Key) : Except StoreErr (Option (List Str)) := do
  if (← isDir root fs k) then
    let p ← path root k
    pure (some ((fs.iterdir p).filter (· != metaDirName)))
  else pure none

def getBytes (root : Path) (fs : PFS) (k : Key) : Except StoreErr Data := do
  let p ← path root k
  match fs.get p with
  | none => .error .keyNotFound
  | some (.dfile d) => .ok d
  | some .dir => .error .other            -- IsADirectoryError
  | some (.mfile _) => .error .other       -- JSON text is not modelled (keys below `__metadata__` are outside the domain)

def readMeta (fs : PFS) (mp : Path) (k : Key) : Except StoreErr MetaObs :=
  match fs.get mp with
  | some (.mfile m) => .ok { key := k, name := keyName k, isDir := false, size := m.size, md5 := m.md5, user := m.user }
  | _ => .error .keyNotFound               -- unreadable JSON: the code removes the key and raises KeyNotFound (not modelled)

def getMeta (root : Path) (fs : PFS) (k : Key) : Except StoreErr MetaObs := do
  let p ← path root k
  if fs.isDirB p then
    pure { key := k, name := keyName k, isDir := true, size := none, md5 := none, user := [] }
  else if fs.existsB p then
    let mp ← metaPath root k
    if fs.existsB mp then readMeta fs mp k
    else pure { key := k, name := keyName k, isDir := false, size := none, md5 := none, user := [] }   -- status "external"
  else
    let mp ← metaPath root k
    if fs.existsB mp then readMeta fs mp k else .error .keyNotFound

def storeMeta (root : Path) (fs : PFS) (k : Key) (m : UMeta) : Except StoreErr PFS := do
  let mp ← metaPath root k
  let fs1 ← fs.mkdirP mp.dropLast
  fs1.write mp (.mfile m)

def store (root : Path) (fs : PFS) (k : Key) (d : Data) (m : UMeta) : Except StoreErr PFS := do
  let p ← path root k
  let _ ← metaPath root k                                  -- `metadata_path_for_key(key).unlink(missing_ok=True)`: key check first
  let fs1 ← fs.mkdirP (root ++ compsParts k).dropLast      -- `path_for_key(key).parent` (lexical)
  let fs2 ← fs1.write p (.dfile d)
  storeMeta root fs2 k { m with size := some d.length, md5 := some d }

def remove (root : Path) (fs : PFS) (k : Key) : Except StoreErr PFS := do
  let p ← path root k
  let fs1 ← fs.unlinkMissingOk p
  let mp ← metaPath root k
  fs1.unlinkMissingOk mp

/-- `removedir`; fuel as for `Mem.removedirFuel`: the number of nodes + 1 suffices. -/
def removedirFuel (root : Path) : Nat → PFS → Key → Bool → Except StoreErr PFS
  | 0, _, _, _ => .error .other
  | n + 1, fs, k, recursive =>
    if k.isEmpty then .ok fs else do
    let fs1 ← (if recursive then do
        match (← listdir root fs k) with
        | none => .error .other
        | some names => names.foldlM (fun st nm => do
            let c := k ++ [nm]
            if (← isDir root st c) then removedirFuel root n st c true else remove root st c) fs
      else pure fs)
    let mp ← metaPath root k
    let fs2 ← fs1.unlinkMissingOk mp
    let p ← path root k
    let fs3 ← (if fs2.existsB (p ++ [metaDirName]) then fs2.rmdir (p ++ [metaDirName]) else pure fs2)
    fs3.rmdir p

def removedir (root : Path) (fs : PFS) (k : Key) (recursive : Bool) : Except StoreErr PFS :=
  removedirFuel root (fs.length + 1) fs k recursive

def makedir (root : Path) (fs : PFS) (k : Key) : Except StoreErr PFS := do
  let p ← path root k
  let fs1 ← fs.mkdirP p
  fs1.mkdirP (p ++ [metaDirName])

/-- `keys(parent)`: depth-first, a key before the keys below it -/
def keysFuel (root : Path) : Nat → PFS → Key → Except StoreErr (List Key)
  | 0, _, _ => .error .other
  | n + 1, fs, parent => do
    match (← listdir root fs parent) with
    | none => pure []
    | some names => names.foldlM (fun acc nm => do
        let key := parent ++ [nm]
        let sub ← keysFuel root n fs key
        pure (acc ++ key :: sub)) []

def keys (root : Path) (fs : PFS) : Except StoreErr (List Key) := keysFuel root (fs.length + 1) fs []

end File

def fileOps (root : Path) : StoreOps PFS where
  getBytes := File.getBytes root
  getMeta := File.getMeta root
  store := File.store root
  storeMeta := File.storeMeta root
  remove := File.remove root
  removedir := File.removedir root
  makedir := File.makedir root
  contains := File.contains root
  isDir := File.isDir root
  keys := File.keys root
  listdir := File.listdir root

/-- a file system in which the root directory of the store exists -/
def fileInit (root : Path) : PFS :=
  match PFS.mkdirP [] root with
  | .ok fs => fs
  | .error _ => []

end Liquer
