/-
M3 (part 1): the value domain of the command vocabulary and Python's conversions on it.
-/
import LiquerModel.Ast

namespace Liquer

/-- values the vocabulary produces; `flt` carries `repr(float)` (floats are never computed with) -/
inductive Val where
  | none
  | int (i : Int)
  | bool (b : Bool)
  | str (s : Str)
  | flt (repr : Str)
  | list (l : List Val)
  deriving Repr, Inhabited

mutual
  def Val.beq : Val → Val → Bool
    | .none, .none => true
    | .int a, .int b => a == b
    | .bool a, .bool b => a == b
    | .str a, .str b => a == b
    | .flt a, .flt b => a == b
    | .list a, .list b => Val.beqList a b
    | _, _ => false
  def Val.beqList : List Val → List Val → Bool
    | [], [] => true
    | a :: as, b :: bs => Val.beq a b && Val.beqList as bs
    | _, _ => false
end

instance : BEq Val := ⟨Val.beq⟩

def hexOfBytes (bs : List UInt8) : Str :=
  bs.flatMap (fun b =>
    let h (n : Nat) : Char := if n < 10 then Char.ofNat (48 + n) else Char.ofNat (87 + n)
    [h (b.toNat / 16), h (b.toNat % 16)])

def utf8Hex (s : Str) : Str :=
  if s.isEmpty then ['-'] else hexOfBytes (s.flatMap String.utf8EncodeChar)

mutual
  /-- canonical rendering, identical to `vocab.canon` on the Python side -/
  def Val.canon : Val → Str
    | .none => ['N']
    | .int i => 'I' :: (toString i).toList
    | .bool b => ['B', if b then '1' else '0']
    | .str s => 'S' :: utf8Hex s
    | .flt r => 'F' :: r
    | .list l => ['L', '['] ++ Val.canonList l ++ [']']
  def Val.canonList : List Val → Str
    | [] => []
    | [v] => v.canon
    | v :: vs => v.canon ++ ',' :: Val.canonList vs
end

/-! ### `int(text)`: optional white space, optional sign, ASCII digits with single underscores -/

def isDigit (c : Char) : Bool := '0' ≤ c && c ≤ '9'
def isPyWs (c : Char) : Bool := c == ' ' || c == '\t' || c == '\n' || c == '\r' || c == '\x0b' || c == '\x0c'

def stripWs (s : Str) : Str := ((s.dropWhile isPyWs).reverse.dropWhile isPyWs).reverse

/-- digits with single underscores between digits → value -/
def digitsVal : Str → Bool → Nat → Option Nat
  | [], prevDigit, acc => if prevDigit then some acc else none
  | c :: cs, prevDigit, acc =>
    if isDigit c then digitsVal cs true (acc * 10 + (c.toNat - 48))
    else if c == '_' && prevDigit && !cs.isEmpty then
      (match cs with
       | d :: _ => if isDigit d then digitsVal cs false acc else none
       | [] => none)
    else none

/-- `int(s)` for a `str`; `none` = ValueError. Non-ASCII input is reported as unmodelled by the driver. -/
def intOfText (s : Str) : Option Int :=
  match stripWs s with
  | '-' :: ds => (digitsVal ds false 0).map (fun n => -(Int.ofNat n))
  | '+' :: ds => (digitsVal ds false 0).map Int.ofNat
  | ds => (digitsVal ds false 0).map Int.ofNat

def asciiLower (c : Char) : Char := if 'A' ≤ c && c ≤ 'Z' then Char.ofNat (c.toNat + 32) else c

/-- `to_bool(x)` of `BooleanArgumentParser` on `str(x).lower()` -/
def boolOfText (s : Str) : Bool :=
  let l := s.map asciiLower
  l == "y".toList || l == "yes".toList || l == "t".toList || l == "true".toList

/-- Python `str(v)` for the values `_str` of the vocabulary accepts (`none` = raises) -/
def Val.pyStr : Val → Option Str
  | .none => some "None".toList
  | .int i => some (toString i).toList
  | .bool b => some (if b then "True".toList else "False".toList)
  | .str s => some s
  | .flt _ => Option.none
  | .list _ => Option.none

/-- `str(v).lower()` as far as the boolean parser can tell matches from non-matches -/
def Val.boolLookupText : Val → Str
  | .none => "none".toList
  | .int i => (toString i).toList
  | .bool b => if b then "true".toList else "false".toList
  | .str s => s
  | .flt r => r
  | .list _ => "[".toList

abbrev Vars := List (Str × Val)

def Vars.get (vs : Vars) (k : Str) : Option Val := (vs.find? (fun kv => kv.1 == k)).map (·.2)
/-- `dict[k] = v`: keeps the position of an existing key -/
def Vars.set (vs : Vars) (k : Str) (v : Val) : Vars :=
  if vs.any (fun kv => kv.1 == k) then vs.map (fun kv => if kv.1 == k then (k, v) else kv) else vs ++ [(k, v)]
/-- `d.update(e)` -/
def Vars.update (vs es : Vars) : Vars := es.foldl (fun acc kv => acc.set kv.1 kv.2) vs

end Liquer
