/-
M1 (part 2): `encode_token`, `decode_token`, `encode`, `decode` of liquer/parser.py,
generic in the escape table (the concrete table is regenerated into `Gen/EscapeTable.lean`).
-/
import LiquerModel.Text

namespace Liquer

abbrev EscTable := List (List Char × List Char)

/-- `for sequence, encoding in ESCAPE_SEQUENCES: token = token.replace(sequence, encoding)` -/
def applyTable (tbl : EscTable) (s : List Char) : List Char :=
  tbl.foldl (fun t pe => replaceAll pe.1 pe.2 t) s

/-- `encode_token`. The trailing `.replace("%7E","~").replace("%7e","~")` of the source is kept. -/
def encodeToken (tbl : EscTable) (s : List Char) : List Char :=
  replaceAll ['%', '7', 'e'] ['~'] (replaceAll ['%', '7', 'E'] ['~'] (quote (applyTable tbl s)))

/-- `{e: s for s, e in ESCAPE_SEQUENCES}.get(mid)`: a later entry with the same code wins. -/
def decLookup (tbl : EscTable) (mid : List Char) : Option (List Char) :=
  (tbl.reverse.find? (fun pe => pe.2 == mid)).map (·.1)

/-- `token.index("~")`: the text before the first `~` and the text from it on. -/
def splitAtTilde : List Char → Option (List Char × List Char)
  | [] => none
  | c :: cs =>
    if c == '~' then some ([], c :: cs)
    else (splitAtTilde cs).map (fun hr => (c :: hr.1, hr.2))

def decodeTokenF (tbl : EscTable) (dec : List UInt8 → List Char) : Nat → List Char → List Char
  | 0, _ => []
  | n + 1, t =>
    if t.isEmpty then []
    else match splitAtTilde t with
      | none => unquote dec t
      | some (head, rest) =>
        let mid := rest.take 2
        let tail := rest.drop 2
        unquote dec (head ++ (decLookup tbl mid).getD mid) ++ decodeTokenF tbl dec n tail

/-- `decode_token` -/
def decodeToken (tbl : EscTable) (dec : List UInt8 → List Char) (t : List Char) : List Char :=
  decodeTokenF tbl dec (t.length + 1) t

/-! ### list-of-lists form -/

/-- `s.split(sep)` for a one-character separator -/
def splitOnChar (sep : Char) : List Char → List (List Char)
  | [] => [[]]
  | c :: cs =>
    if c == sep then [] :: splitOnChar sep cs
    else match splitOnChar sep cs with
      | [] => [[c]]            -- unreachable: result is never empty
      | w :: ws => (c :: w) :: ws

def joinWith (sep : Char) : List (List Char) → List Char
  | [] => []
  | [w] => w
  | w :: ws => w ++ sep :: joinWith sep ws

/-- `encode(ql)` -/
def encodeLL (tbl : EscTable) (ql : List (List (List Char))) : List Char :=
  joinWith '/' (ql.map (fun qv => joinWith '-' (qv.map (encodeToken tbl))))

/-- `decode(query)` -/
def decodeLL (tbl : EscTable) (dec : List UInt8 → List Char) (q : List Char) :
    List (List (List Char)) :=
  ((splitOnChar '/' q).map (fun eqv => (splitOnChar '-' eqv).map (decodeToken tbl dec))).filter
    (fun qc => match qc with
      | [] => false
      | h :: _ => !h.isEmpty)

/-! ### the decidable side condition on the table (re-proved for the regenerated table) -/

/-- every code is `~c` for a single character `c` -/
def codeLetter? (e : List Char) : Option Char :=
  match e with
  | ['~', c] => some c
  | _ => none

/-- `TableOK`: what the round-trip proof needs of `ESCAPE_SEQUENCES`.
  1. the first entry is `("~", "~~")`;
  2. every code is `~c`; no pattern is empty;
  3. no later pattern contains `~`;
  4. codes are pairwise distinct;
  5. the code letter of entry `i` does not occur in the pattern of any later entry `j > i`;
  6. patterns are ASCII and contain no `%` (so `unquote(head + pattern)` leaves the pattern alone);
  7. every code letter is left alone by `quote` (otherwise `~c` would be torn apart: `~%XX`). -/
def laterOK : EscTable → Bool
  | [] => true
  | (_, e) :: rest =>
    (match codeLetter? e with
      | none => false
      | some c => quoteSafe c && rest.all (fun q => !q.1.contains c && q.2 != e))
    && laterOK rest

def tableOK (tbl : EscTable) : Bool :=
  match tbl with
  | [] => false
  | (p0, e0) :: rest =>
    p0 == ['~'] && e0 == ['~', '~'] &&
    rest.all (fun q => !q.1.isEmpty && !q.1.contains '~') &&
    rest.all (fun q => q.1.all (fun c => isAscii c && c != '%')) &&
    laterOK ((p0, e0) :: rest)

end Liquer
