/-
M3 (part 5): the *reference interpretation* of a parsed query — the specification of C01/C04/C06/C09.

No cache, no contexts, no metadata traffic: a query means the left-to-right composition of its steps; an
absolute link argument is the value of its own query from the empty input, a relative one the value of the
query obtained by appending the link's segment to everything left of the current action. The append is
done on the canonical *text* exactly as `Context.apply` does (`parse(parent_query) + tq`, `.encode()`,
`parse`); that it coincides with appending on the AST is C02's print-parse theorem (`refAppend_ast` in
Props/C01.lean states it). `refQ` returns the outcome and the calls of the instrumented commands, in order.
-/
import LiquerModel.Eval

namespace Liquer

mutual
  def refQ (env : Env) : Nat → Query → Str → Extra → Option Val → Outcome × List Str
    | 0, _, _, _, _ => (.unmodelled, [])
    | n + 1, q, rawQuery, extra, input =>
      let tbl := Gen.escapeTable
      let key := q.encode tbl
      match q with
      | .mk [.resource _ _] _ => (.unmodelled, [])
      | _ =>
      let init : EState := { vars := env.defaults, data := input.getD .none }
      let (o, calls0, parent, r) : Outcome × List Str × Str × Option Seg :=
        match q.predecessor with
        | none => (.st init, [], [], none)
        | some (p, r) =>
          if p.segments.isEmpty then (.st init, [], [], r)
          else
            let (o, c) := refQ env n p (p.encode tbl) .none input
            (o, c, p.encode tbl, r)
      match o with
      | .raised a b => (.raised a b, calls0)
      | .parseError => (.parseError, calls0)
      | .unmodelled => (.unmodelled, calls0)
      | .st st =>
        if st.isError then (.st { st with data := .none, query := key }, calls0)
        else
          match r with
          | none => (.st { st with query := key }, calls0)
          | some (.transform _ [] (some f)) =>
            (.st { st with filename := some f, extension := some (extensionOf f), query := key }, calls0)
          | some (.transform _ [a] none) =>
            let (o2, c2) := refAction env n st a rawQuery parent extra
            (match o2 with
             | .st st2 => (.st { st2 with query := key }, calls0 ++ c2)
             | other => (other, calls0 ++ c2))
          | some _ => (.unmodelled, calls0)

  def refAction (env : Env) : Nat → EState → Action → Str → Str → Extra → Outcome × List Str
    | 0, _, _, _, _, _ => (.unmodelled, [])
    | n + 1, st, act, rawQuery, parent, extra =>
      let tbl := Gen.escapeTable
      let cmds := [act.toList tbl]
      let failAt (attrs : List (Str × Str)) (vol : Bool) (pos : Option Nat) (q : Option Str) : Outcome :=
        .st { st with data := .none, isError := true, status := s "error", commands := cmds, attrs := attrs, volatile := st.volatile || vol, errPos := pos, errQuery := q }
      let failState (attrs : List (Str × Str)) (vol : Bool) : Outcome := failAt attrs vol (some act.pos) (some rawQuery)
      match namespacesOf st.vars with
      | none => (.unmodelled, [])
      | some nss =>
        if !(nss.getLast?.map env.reg.hasNs).getD false then (.unmodelled, []) else
        match resolve env.reg nss act.name with
        | none => (failState (mergeAttrs st.attrs []) false, [])
        | some sig =>
          match refParams env n act.params rawQuery parent with
          | (.inr o, c1) => (o, c1)
          | (.inl given, c1) =>
            let (given, kwargs, extraVol) : List PVal × List (Str × Val) × Bool :=
              match extra with
              | .none => (given, [], false)
              | .list vs => if vs.isEmpty then (given, [], false) else (given ++ vs.map .raw, [], true)
              | .dict kv => if kv.isEmpty then (given, [], false) else (given, kv, true)
            let attrs := mergeAttrs st.attrs sig.attrs
            match parseArgv sig.args given kwargs with
            | .unmodelled => (.unmodelled, c1)
            | .fail => (failState attrs (extraVol || cmdVolatile sig.attrs), c1)
            | .ok args =>
              let c2 := if isLibraryCommand sig.name then c1
                        else c1 ++ [callText sig.ns sig.name (if sig.first then .none else st.data) args]
              let done (v : Val) (vars : Vars) (caching : Bool) : Outcome :=
                .st { st with data := v, vars := st.vars.update vars, status := statusReady, commands := cmds, attrs := attrs, caching := caching && st.caching, volatile := st.volatile || extraVol || cmdVolatile sig.attrs }
              match cmdSem sig.ns sig.name st.data st.vars args with
              | .unmodelled => (.unmodelled, c2)
              | .raises => (failState attrs (extraVol || cmdVolatile sig.attrs), c2)
              | .value v => (done v [] true, c2)
              | .stateVars v vars => (done v vars true, c2)
              | .nocache v => (done v [] false, c2)
              | .subeval x qtext =>
                let (o, c3) := refText env n qtext
                (match o with
                 | .st sub => if sub.isError then (failAt attrs extraVol sub.errPos sub.errQuery, c2 ++ c3)
                              else (done (.list [x, sub.data]) [] true, c2 ++ c3)
                 | .parseError => (failState attrs extraVol, c2 ++ c3)
                 | .raised _ _ => (.unmodelled, c2 ++ c3)
                 | .unmodelled => (.unmodelled, c2 ++ c3))

  def refParams (env : Env) : Nat → List Param → Str → Str → (List PVal ⊕ Outcome) × List Str
    | 0, _, _, _ => (.inr .unmodelled, [])
    | _ + 1, [], _, _ => (.inl [], [])
    | n + 1, p :: ps, rawQuery, parent =>
      match p with
      | .str t pos =>
        (match refParams env n ps rawQuery parent with
         | (.inl rest, c) => (.inl (.text t pos :: rest), c)
         | other => other)
      | .link lq pos =>
        let tbl := Gen.escapeTable
        let (o, c1) : Outcome × List Str :=
          if lq.absolute || parent.isEmpty || parent == ['/'] then refQ env n lq (lq.encode tbl) .none none
          else
            match lq with
            | .mk [.transform h as f] _ =>
              (match parse env.dec parent with
               | none => (.unmodelled, [])
               | some pq => refText env n ((Query.mk (pq.segments ++ [.transform h as f]) pq.absolute).encode tbl))
            | _ => (.unmodelled, [])
        (
          match o with
          | .st v =>
            if v.isError then (.inr (.raised (some pos) (some rawQuery)), c1)
            else
              (match refParams env n ps rawQuery parent with
               | (.inl rest, c2) => (.inl (.expanded v.data pos :: rest), c1 ++ c2)
               | (.inr o2, c2) => (.inr o2, c1 ++ c2))
          | .raised a b => (.inr (.raised a b), c1)
          | .parseError => (.inr .parseError, c1)
          | .unmodelled => (.inr .unmodelled, c1))

  /-- reference interpretation of a query text -/
  def refText (env : Env) : Nat → Str → Outcome × List Str
    | 0, _ => (.unmodelled, [])
    | n + 1, text =>
      match parse env.dec text with
      | none => (.parseError, [])
      | some q => refQ env n q text .none none
end

/-- the observable part of an outcome the properties talk about (C01/C04): value or failure, final variables,
last command, volatility, file name and extension -/
structure Obs where
  value : Option Val            -- `none` = failure
  raised : Bool
  vars : List (Str × Str)       -- canonical text, sorted by the driver before comparison
  lastCommand : List Str
  volatile : Bool
  filename : Option Str
  extension : Option Str
  deriving Repr

def Outcome.obs : Outcome → Option Obs
  | .st e => some {
      value := if e.isError then none else some e.data, raised := false,
      vars := if e.isError then [] else e.vars.map (fun kv => (kv.1, kv.2.canon)),
      lastCommand := e.commands.getLast?.getD [], volatile := e.volatile,
      filename := e.filename, extension := e.extension }
  | .raised _ _ => some { value := none, raised := true, vars := [], lastCommand := [], volatile := false, filename := none, extension := none }
  | .parseError => some { value := none, raised := true, vars := [], lastCommand := [], volatile := false, filename := none, extension := none }
  | .unmodelled => none

end Liquer
