/-
M7 (part 2): several evaluations sharing one cache, interleaved at the granularity of individual cache operations.

A thread is an evaluation run against the oracle world of EvalO.lean with the answers it has received so far; one step of a
thread performs its next cache operation on the shared cache (`get` = record the shared cache's answer; writes are applied).
`stepAny` lets any thread move: the set of reachable configurations under `stepAny*` is the set of all schedules.
-/
import LiquerModel.EvalO

namespace Liquer

/-- a run of consecutive `store_metadata` writes of one thread is one scheduling unit (the implementation issues many progress
updates in a row — one per log event and parent context); within a run only the last status per key survives -/
def setMeta (l : List (Str × Str)) (k st : Str) : List (Str × Str) :=
  if l.any (fun e => e.1 == k) then l.map (fun e => if e.1 == k then (k, st) else e) else l ++ [(k, st)]

def canonTrace : List COp → List COp
  | [] => []
  | .storeMeta k st :: rest =>
    (match canonTrace rest with
     | .metas l :: more => .metas (if l.any (fun e => e.1 == k) then l else (k, st) :: l) :: more
     | more => .metas [(k, st)] :: more)
  | op :: rest => op :: canonTrace rest

structure Thread where
  q : Query
  raw : Str
  answers : List (Option EState) := []
  done : Nat := 0                      -- operations of the canonical trace already performed on the shared cache
  result : Option Outcome := none
  calls : List Str := []

/-- the thread's evaluation against the answers received so far -/
def Thread.run (env : Env) (t : Thread) : OW × Outcome :=
  evalQO env (evalFuel t.raw) { answers := t.answers } t.q t.raw .none none true []

def Thread.finished (t : Thread) : Bool := t.result.isSome

/-- one step of thread `t` on the shared cache -/
def stepThread (env : Env) (shared : World) (t : Thread) : World × Thread :=
  if t.finished then (shared, t) else
  let (ow, out) := t.run env
  match (canonTrace ow.trace)[t.done]? with
  | none => (shared, { t with result := some out, calls := ow.calls })
  | some (.get k) => (shared, { t with answers := t.answers ++ [shared.get k], done := t.done + 1 })
  | some (.storeMeta k s) => (shared.storeMeta k s, { t with done := t.done + 1 })
  | some (.store st) => (shared.store st, { t with done := t.done + 1 })
  | some (.remove k) => (shared.remove k, { t with done := t.done + 1 })
  | some (.metas l) => (l.foldl (fun w e => w.storeMeta e.1 e.2) shared, { t with done := t.done + 1 })

structure Config where
  shared : World
  threads : List Thread

def stepAt (env : Env) (c : Config) (i : Nat) : Config :=
  match c.threads[i]? with
  | none => c
  | some t =>
    let (w, t') := stepThread env c.shared t
    { shared := w, threads := c.threads.set i t' }

/-- any thread may move -/
inductive StepAny (env : Env) : Config → Config → Prop where
  | step (c : Config) (i : Nat) (h : i < c.threads.length) : StepAny env c (stepAt env c i)

/-- run a schedule (list of thread indices), then let the threads finish one after the other; `fuel` bounds the tail -/
def runSchedule (env : Env) (c : Config) : List Nat → Config
  | [] => c
  | i :: rest => runSchedule env (stepAt env c i) rest

def finishAll (env : Env) : Nat → Config → Config
  | 0, c => c
  | n + 1, c =>
    match c.threads.findIdx? (fun t => !t.finished) with
    | none => c
    | some i => finishAll env n (stepAt env c i)

end Liquer
