/-
M7 (part 2): several evaluations sharing one cache, interleaved at the granularity of individual cache operations.

A thread is an evaluation run against the oracle world of EvalO.lean with the answers it has received so far; one step of a
thread performs its next cache operation on the shared cache (`get` = record the shared cache's answer; writes are applied).
`stepAny` lets any thread move: the set of reachable configurations under `stepAny*` is the set of all schedules.
-/
import LiquerModel.EvalO

namespace Liquer

/-- A thread's own steps are its `get`, `store` and `remove` operations.  Progress-metadata writes (`store_metadata`) are not
thread steps of this model: *any* metadata-only write by *anyone* at *any* time is an environment step (`EnvOp`), so where
and what an evaluation reports as progress need not be predicted — the theorems hold whatever is written (a metadata-only write
never creates data).  The harness replays the implementation's actual `store_metadata` calls as environment steps. -/
def COp.isMeta : COp → Bool
  | .storeMeta _ _ => true
  | _ => false

def ownOps (tr : List COp) : List COp := tr.filter (fun o => !o.isMeta)

structure Thread where
  q : Query
  raw : Str
  answers : List (Option EState) := []
  done : Nat := 0                      -- own operations already performed on the shared cache
  result : Option Outcome := none
  calls : List Str := []

/-- the thread's evaluation against the answers received so far -/
def Thread.run (env : Env) (t : Thread) : OW × Outcome :=
  evalQO env (evalFuel t.raw) { answers := t.answers } t.q t.raw .none none true

def Thread.finished (t : Thread) : Bool := t.result.isSome

/-- one cache operation on the shared cache: a `get` records the shared cache's answer, writes are applied -/
def applyOp (acc : World × List (Option EState)) : COp → World × List (Option EState)
  | .get k => (acc.1, acc.2 ++ [acc.1.get k])
  | .storeMeta k s => (acc.1.storeMeta k s, acc.2)
  | .store st => (acc.1.store st, acc.2)
  | .remove k => (acc.1.remove k, acc.2)

/-- one step of thread `t` on the shared cache: its next own operation (or, when none is left, it finishes) -/
def stepThread (env : Env) (shared : World) (t : Thread) : World × Thread :=
  if t.finished then (shared, t) else
  let (ow, out) := t.run env
  match (ownOps ow.trace)[t.done]? with
  | none => (shared, { t with result := some out, calls := ow.calls })
  | some op =>
    let (w, ans) := applyOp (shared, t.answers) op
    (w, { t with answers := ans, done := t.done + 1 })

structure Config where
  shared : World
  threads : List Thread

def stepAt (env : Env) (c : Config) (i : Nat) : Config :=
  match c.threads[i]? with
  | none => c
  | some t =>
    let (w, t') := stepThread env c.shared t
    { shared := w, threads := c.threads.set i t' }

/-- an environment step: somebody writes metadata (any key, any status) -/
def envMeta (c : Config) (k status : Str) : Config := { c with shared := c.shared.storeMeta k status }

/-- any thread may move, and metadata may be written at any time -/
inductive StepAny (env : Env) : Config → Config → Prop where
  | step (c : Config) (i : Nat) (h : i < c.threads.length) : StepAny env c (stepAt env c i)
  | env (c : Config) (k status : Str) : StepAny env c (envMeta c k status)

/-- a schedule: thread steps and environment steps in any order -/
inductive Ev where
  | thread (i : Nat)
  | meta_ (k status : Str)

def runEvents (env : Env) (c : Config) : List Ev → Config
  | [] => c
  | .thread i :: rest => runEvents env (stepAt env c i) rest
  | .meta_ k st :: rest => runEvents env (envMeta c k st) rest

/-- run a schedule of thread indices only -/
def runSchedule (env : Env) (c : Config) : List Nat → Config
  | [] => c
  | i :: rest => runSchedule env (stepAt env c i) rest

def finishAll (env : Env) : Nat → Config → Config
  | 0, c => c
  | n + 1, c =>
    match c.threads.findIdx? (fun t => !t.finished) with
    | none => c
    | some i => finishAll env n (stepAt env c i)

end Liquer
