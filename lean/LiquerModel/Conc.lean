/-
M7 (part 2): several evaluations sharing one cache, interleaved at the granularity of individual cache operations.

A thread is an evaluation run against the oracle world of EvalO.lean with the answers it has received so far; one step of a
thread performs its next cache operation on the shared cache (`get` = record the shared cache's answer; writes are applied).
`stepAny` lets any thread move: the set of reachable configurations under `stepAny*` is the set of all schedules.
-/
import LiquerModel.EvalO

namespace Liquer

/-- pre-emption points: a thread can be pre-empted before every `get`, `store` and `remove`; the progress-metadata writes
(`store_metadata`) that follow such an operation are performed together with it (where and what an evaluation reports as
progress is not an observable of C12; the writes themselves are applied to the shared cache in program order) -/
def COp.isMeta : COp → Bool
  | .storeMeta _ _ => true
  | _ => false

structure Thread where
  q : Query
  raw : Str
  answers : List (Option EState) := []
  done : Nat := 0                      -- cache operations of the trace already performed on the shared cache
  result : Option Outcome := none
  calls : List Str := []

/-- the thread's evaluation against the answers received so far -/
def Thread.run (env : Env) (t : Thread) : OW × Outcome :=
  evalQO env (evalFuel t.raw) { answers := t.answers } t.q t.raw .none none true

def Thread.finished (t : Thread) : Bool := t.result.isSome

/-- one cache operation of a thread on the shared cache: a `get` records the shared cache's answer, writes are applied -/
def applyOp (acc : World × List (Option EState)) : COp → World × List (Option EState)
  | .get k => (acc.1, acc.2 ++ [acc.1.get k])
  | .storeMeta k s => (acc.1.storeMeta k s, acc.2)
  | .store st => (acc.1.store st, acc.2)
  | .remove k => (acc.1.remove k, acc.2)

/-- perform the progress writes the thread issues next (up to its next pre-emption point) -/
def flushMetas (env : Env) (shared : World) (t : Thread) : World × Thread :=
  let metas := ((t.run env).1.trace.drop t.done).takeWhile COp.isMeta
  ((metas.foldl applyOp (shared, t.answers)).1, { t with done := t.done + metas.length })

/-- one step of thread `t` on the shared cache: the operation at its pre-emption point and the progress writes after it -/
def stepThread (env : Env) (shared : World) (t : Thread) : World × Thread :=
  if t.finished then (shared, t) else
  let (ow, out) := t.run env
  match ow.trace[t.done]? with
  | none => (shared, { t with result := some out, calls := ow.calls })
  | some op =>
    let (w, ans) := applyOp (shared, t.answers) op
    flushMetas env w { t with answers := ans, done := t.done + 1 }

structure Config where
  shared : World
  threads : List Thread

def stepAt (env : Env) (c : Config) (i : Nat) : Config :=
  match c.threads[i]? with
  | none => c
  | some t =>
    let (w, t') := stepThread env c.shared t
    { shared := w, threads := c.threads.set i t' }

/-- every thread runs to its first pre-emption point -/
def startAll (env : Env) (c : Config) : Config :=
  (List.range c.threads.length).foldl (fun c i =>
    match c.threads[i]? with
    | none => c
    | some t => let (w, t') := flushMetas env c.shared t; { shared := w, threads := c.threads.set i t' }) c

/-- any thread may move -/
inductive StepAny (env : Env) : Config → Config → Prop where
  | step (c : Config) (i : Nat) (h : i < c.threads.length) : StepAny env c (stepAt env c i)

/-- run a schedule (list of thread indices), then let the threads finish one after the other; `fuel` bounds the tail -/
def runSchedule (env : Env) (c : Config) : List Nat → Config
  | [] => c
  | i :: rest => runSchedule env (stepAt env c i) rest

def finishAll (env : Env) : Nat → Config → Config
  | 0, c => c
  | n + 1, c =>
    match c.threads.findIdx? (fun t => !t.finished) with
    | none => c
    | some i => finishAll env n (stepAt env c i)

end Liquer
