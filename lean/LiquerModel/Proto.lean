/-
Line protocol helpers for the `driver` executable (not part of any theorem).
Fields are hex-encoded UTF-8; `-` stands for the empty string.
-/
namespace Liquer.Proto

def hexNib (n : Nat) : Char :=
  if n < 10 then Char.ofNat (48 + n) else Char.ofNat (87 + n)

def nibVal (c : Char) : Nat :=
  if '0' ≤ c ∧ c ≤ '9' then c.toNat - 48
  else if 'a' ≤ c ∧ c ≤ 'f' then c.toNat - 87
  else if 'A' ≤ c ∧ c ≤ 'F' then c.toNat - 55
  else 0

def bytesToHex (b : ByteArray) : String :=
  if b.size == 0 then "-" else
  String.ofList (b.toList.flatMap (fun x => [hexNib (x.toNat / 16), hexNib (x.toNat % 16)]))

def hexToBytes (s : String) : ByteArray :=
  if s == "-" then ByteArray.empty else
  let rec go : List Char → List UInt8
    | a :: b :: rest => UInt8.ofNat (16 * nibVal a + nibVal b) :: go rest
    | _ => []
  (go s.toList).toByteArray

def encStr (s : String) : String := bytesToHex s.toUTF8

def decStr (h : String) : Option String := String.fromUTF8? (hexToBytes h)

def encChars (cs : List Char) : String := encStr (String.ofList cs)

def decChars (h : String) : Option (List Char) := (decStr h).map String.toList

end Liquer.Proto
