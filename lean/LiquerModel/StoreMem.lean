/-
M5: `liquer.store.MemoryStore`, method by method (three containers: `directories` (a set), `data`,
`metadata` (dictionaries)).  The model mirrors what the class *does*, including

* `remove` also drops a `directories` entry,
* `store_metadata` on an absent key creates a metadata-only entry (then `contains` is true and `get_bytes` fails),
* `listdir` of a non-directory returns `None`,
* non-recursive `removedir` of a non-empty directory does nothing,
* recursive `removedir` walks `listdir_keys` (computed once, before the loop) and recurses on sub-directories.

Sets and dictionaries are association lists without duplicate keys; the order of listings is not
part of the model (the harness sorts on both sides; Python sorts `keys()` as strings).
-/
import LiquerModel.StoreCore

namespace Liquer

/-! association lists keyed by `Key` (Python `dict`) -/
def alGet {β : Type} (l : List (Key × β)) (k : Key) : Option β := (l.find? (fun kv => kv.1 == k)).map (·.2)
def alErase {β : Type} (l : List (Key × β)) (k : Key) : List (Key × β) := l.filter (fun kv => kv.1 != k)
def alSet {β : Type} (l : List (Key × β)) (k : Key) (v : β) : List (Key × β) := (k, v) :: alErase l k

/-- `set.add` -/
def setAdd (l : List Key) (k : Key) : List Key := if l.contains k then l else k :: l

structure MemState where
  directories : List Key := []
  data : List (Key × Data) := []
  metadata : List (Key × UMeta) := []
  deriving Repr, Inhabited

namespace Mem

/-- `keys()`: union of the three containers -/
def keys (s : MemState) : List Key :=
  (s.directories ++ s.data.map (·.1) ++ s.metadata.map (·.1)).eraseDups

def isDir (s : MemState) (k : Key) : Bool := k.isEmpty || s.directories.contains k

def contains (s : MemState) (k : Key) : Bool :=
  k.isEmpty || s.directories.contains k || (alGet s.data k).isSome || (alGet s.metadata k).isSome

/-- `listdir`: root = set of first components of all keys; a directory = names of the keys whose
`parent_key` is `k`; anything else `None`.  (`parent_key("")` is `None` in Python and never equals `k`;
here `parentKey [] = []` never equals the non-empty `k` either.) -/
def listdir (s : MemState) (k : Key) : Option (List Str) :=
  if k.isEmpty then
    some ((keys s).filterMap (fun q => match q with
      | c :: _ => if c.isEmpty then none else some c
      | [] => none)).eraseDups
  else if isDir s k then some (((keys s).filter (fun q => parentKey q == k)).map keyName)
  else none

/-- `makedir`: `while key not in (None, ""): directories.add(key); key = parent_key(key)` -/
def makedir (s : MemState) (k : Key) : MemState :=
  { s with directories := (ancestors k ++ (if k.isEmpty then [] else [k])).foldl setAdd s.directories }

def getBytes (s : MemState) (k : Key) : Except StoreErr Data :=
  match alGet s.data k with
  | some d => .ok d
  | none => .error .keyNotFound

/-- `get_metadata`: the stored dictionary re-finalised with the *current* `is_dir(key)`;
without a stored dictionary only directories have (default) metadata -/
def getMeta (s : MemState) (k : Key) : Except StoreErr MetaObs :=
  match alGet s.metadata k with
  | some m => .ok { key := k, name := keyName k, isDir := isDir s k, size := m.size, md5 := m.md5, user := m.user }
  | none =>
    if isDir s k then .ok { key := k, name := keyName k, isDir := true, size := none, md5 := none, user := [] }
    else .error .keyNotFound

/-- `store`: `makedir(parent_key(key))`, then both dictionaries -/
def store (s : MemState) (k : Key) (d : Data) (m : UMeta) : MemState :=
  let s1 := makedir s (parentKey k)
  { s1 with data := alSet s1.data k d,
            metadata := alSet s1.metadata k { m with size := some d.length, md5 := some d } }

def storeMeta (s : MemState) (k : Key) (m : UMeta) : MemState :=
  { s with metadata := alSet s.metadata k m }

/-- `remove`: all three containers, absence ignored -/
def remove (s : MemState) (k : Key) : MemState :=
  { directories := s.directories.filter (· != k), data := alErase s.data k, metadata := alErase s.metadata k }

/-- `removedir`.  Fuel: every level of the recursion descends from a directory to one of its children,
which is a member of `keys s` one component longer; `(keys s).length + 1` therefore always suffices
(`Mem.ops` uses exactly that).  Running out of fuel is reported as `.error .other`.
`listdir` returning `None` makes Python raise `TypeError` (`.other`). -/
def removedirFuel : Nat → MemState → Key → Bool → Except StoreErr MemState
  | 0, _, _, _ => .error .other
  | n + 1, s, k, recursive =>
    if k.isEmpty then .ok s else
    let walked : Except StoreErr MemState :=
      if recursive then
        match listdir s k with
        | none => .error .other
        | some names => names.foldlM (fun st nm =>
            let c := k ++ [nm]
            if isDir st c then removedirFuel n st c true else .ok (remove st c)) s
      else .ok s
    match walked with
    | .error e => .error e
    | .ok s1 =>
      match listdir s1 k with
      | none => .error .other
      | some l => .ok (if l.isEmpty then { s1 with directories := s1.directories.filter (· != k) } else s1)

def removedir (s : MemState) (k : Key) (recursive : Bool) : Except StoreErr MemState :=
  removedirFuel ((keys s).length + 1) s k recursive

end Mem

/-- `MemoryStore` -/
def memOps : StoreOps MemState where
  getBytes := Mem.getBytes
  getMeta := Mem.getMeta
  store s k d m := .ok (Mem.store s k d m)
  storeMeta s k m := .ok (Mem.storeMeta s k m)
  remove s k := .ok (Mem.remove s k)
  removedir := Mem.removedir
  makedir s k := .ok (Mem.makedir s k)
  contains s k := .ok (Mem.contains s k)
  isDir s k := .ok (Mem.isDir s k)
  keys s := .ok (Mem.keys s)
  listdir s k := .ok (Mem.listdir s k)

def memInit : MemState := {}

end Liquer
