/-
M5: `liquer.store.OverlayStore(overlay, fallback)`, method by method, over arbitrary store models
`U` (the overlay, "upper") and `L` (the fall-back, "lower").  State = `(upper, lower, removed)`;
`removed` is the Python set of tomb-stones (an association-free list without duplicates).

Modelled code = `/repo` + the proposed fixes D5a-D5e (`/verif/proposed_fixes`):
* `get_bytes` of a tomb-stoned key raises `KeyNotFoundStoreException` (was: returned `None`),
* `removedir` removes the emptied directory from the overlay with `removedir` and *also* tomb-stones
  it when the fall-back has it (was: `overlay.remove`, and `else`),
* `store_metadata` of a key that only the fall-back has first copies the entry up (was: a metadata-only
  entry in the overlay: `get_bytes` failed with a `MemoryStore` overlay, the update was invisible with a `FileStore`),
* `store` / `store_metadata` / `makedir` forget the tomb-stones of the key *and of its parents*,
* `listdir` masks with `join_key(key, x)` (was: `key + "/" + x`, never masking below the root).

Everything else is as the class does it, e.g. `listdir` never returns `None`, `remove("")` would
tomb-stone the root, a write whose overlay part raises has already changed `removed` (not modelled:
a failing operation leaves the model state unchanged; no part model used here raises on a write).
-/
import LiquerModel.StoreCore

namespace Liquer

abbrev OvState (σu σl : Type) := σu × σl × List Key

namespace Ov
variable {σu σl : Type}

/-- `OverlayStore.restore` (fix D5d): `while key not in ("", None): removed.discard(key); key = parent_key(key)` -/
def restore (removed : List Key) (k : Key) : List Key :=
  removed.filter (fun r => r.isEmpty || !(r.isPrefixOf k))

/-- `set.add` -/
def addKey (removed : List Key) (k : Key) : List Key := if removed.contains k then removed else k :: removed

def contains (U : StoreOps σu) (L : StoreOps σl) (s : OvState σu σl) (k : Key) : Except StoreErr Bool :=
  if s.2.2.contains k then .ok false
  else match U.contains s.1 k with
    | .error e => .error e
    | .ok true => .ok true
    | .ok false => L.contains s.2.1 k

def isDir (U : StoreOps σu) (L : StoreOps σl) (s : OvState σu σl) (k : Key) : Except StoreErr Bool :=
  if s.2.2.contains k then .ok false
  else match U.contains s.1 k with
    | .error e => .error e
    | .ok true => U.isDir s.1 k
    | .ok false => L.isDir s.2.1 k

def getBytes (U : StoreOps σu) (L : StoreOps σl) (s : OvState σu σl) (k : Key) : Except StoreErr Data :=
  if s.2.2.contains k then .error .keyNotFound
  else match U.contains s.1 k with
    | .error e => .error e
    | .ok true => U.getBytes s.1 k
    | .ok false => L.getBytes s.2.1 k

def getMeta (U : StoreOps σu) (L : StoreOps σl) (s : OvState σu σl) (k : Key) : Except StoreErr MetaObs :=
  if s.2.2.contains k then .error .keyNotFound
  else match U.contains s.1 k with
    | .error e => .error e
    | .ok true => U.getMeta s.1 k
    | .ok false => L.getMeta s.2.1 k

/-- `listdir`: union of both listings (`None` counts as empty), minus the tomb-stoned children; never `None` -/
def listdirL (U : StoreOps σu) (L : StoreOps σl) (s : OvState σu σl) (k : Key) : Except StoreErr (List Str) :=
  match U.listdir s.1 k with
  | .error e => .error e
  | .ok lu =>
    match L.listdir s.2.1 k with
    | .error e => .error e
    | .ok ll =>
      let a := (lu.getD []).eraseDups
      let b := (ll.getD []).eraseDups
      .ok ((a ++ b.filter (fun x => !a.contains x)).filter (fun x => !s.2.2.contains (k ++ [x])))

def keys (U : StoreOps σu) (L : StoreOps σl) (s : OvState σu σl) : Except StoreErr (List Key) :=
  match U.keys s.1 with
  | .error e => .error e
  | .ok ku =>
    match L.keys s.2.1 with
    | .error e => .error e
    | .ok kl => .ok ((ku ++ kl).eraseDups.filter (fun k => !s.2.2.contains k))

def store (U : StoreOps σu) (_L : StoreOps σl) (s : OvState σu σl) (k : Key) (d : Data) (m : UMeta) :
    Except StoreErr (OvState σu σl) :=
  match U.store s.1 k d m with
  | .error e => .error e
  | .ok u => .ok (u, s.2.1, restore s.2.2 k)

/-- fix D5c, the copy-up: `overlay.store(key, fallback.get_bytes(key), fallback.get_metadata(key))` when only
the fall-back has the key -/
def copyUp (U : StoreOps σu) (L : StoreOps σl) (s : OvState σu σl) (k : Key) : Except StoreErr σu :=
  match U.contains s.1 k with
  | .error e => .error e
  | .ok true => .ok s.1
  | .ok false =>
    match L.contains s.2.1 k with
    | .error e => .error e
    | .ok false => .ok s.1
    | .ok true =>
      match L.getBytes s.2.1 k with
      | .error e => .error e
      | .ok d =>
        match L.getMeta s.2.1 k with
        | .error e => .error e
        | .ok mo => U.store s.1 k d { user := mo.user, size := mo.size, md5 := mo.md5 }

def storeMeta (U : StoreOps σu) (L : StoreOps σl) (s : OvState σu σl) (k : Key) (m : UMeta) :
    Except StoreErr (OvState σu σl) :=
  match copyUp U L s k with
  | .error e => .error e
  | .ok u1 =>
    match U.storeMeta u1 k m with
    | .error e => .error e
    | .ok u => .ok (u, s.2.1, restore s.2.2 k)

def remove (U : StoreOps σu) (L : StoreOps σl) (s : OvState σu σl) (k : Key) : Except StoreErr (OvState σu σl) :=
  if s.2.2.contains k then .ok s
  else match U.contains s.1 k with
    | .error e => .error e
    | .ok inU =>
      match (if inU then U.remove s.1 k else .ok s.1) with
      | .error e => .error e
      | .ok u =>
        match L.contains s.2.1 k with
        | .error e => .error e
        | .ok inL => .ok (u, s.2.1, if inL then addKey s.2.2 k else s.2.2)

def makedir (U : StoreOps σu) (_L : StoreOps σl) (s : OvState σu σl) (k : Key) : Except StoreErr (OvState σu σl) :=
  match U.makedir s.1 k with
  | .error e => .error e
  | .ok u => .ok (u, s.2.1, restore s.2.2 k)

/-- the tail of `removedir` (fix D5b): an existing, now empty directory disappears from the overlay and is
tomb-stoned when the fall-back has it -/
def dropEmptyDir (U : StoreOps σu) (L : StoreOps σl) (s : OvState σu σl) (k : Key) : Except StoreErr (OvState σu σl) :=
  match contains U L s k with
  | .error e => .error e
  | .ok false => .ok s
  | .ok true =>
    match listdirL U L s k with
    | .error e => .error e
    | .ok l =>
      if !l.isEmpty then .ok s else
      match U.contains s.1 k with
      | .error e => .error e
      | .ok inU =>
        match (if inU then U.removedir s.1 k false else .ok s.1) with
        | .error e => .error e
        | .ok u =>
          match L.contains s.2.1 k with
          | .error e => .error e
          | .ok inL => .ok (u, s.2.1, if inL then addKey s.2.2 k else s.2.2)

/-- the body of the loop in a recursive `removedir`: sub-directories recurse (`recur`), anything else is `remove`d -/
def rmChild (U : StoreOps σu) (L : StoreOps σl) (recur : OvState σu σl → Key → Except StoreErr (OvState σu σl))
    (k : Key) (st : OvState σu σl) (nm : Str) : Except StoreErr (OvState σu σl) :=
  match isDir U L st (k ++ [nm]) with
  | .error e => .error e
  | .ok true => recur st (k ++ [nm])
  | .ok false => remove U L st (k ++ [nm])

/-- `removedir`; the recursion goes through the overlay's *own* `listdir_keys` (computed once, before the
loop), `is_dir`, `remove`.  Out of fuel = `.error .other` (Python: `RecursionError`). -/
def removedirFuel (U : StoreOps σu) (L : StoreOps σl) : Nat → OvState σu σl → Key → Bool → Except StoreErr (OvState σu σl)
  | 0, _, _, _ => .error .other
  | n + 1, s, k, recursive =>
    let walked : Except StoreErr (OvState σu σl) :=
      if recursive then
        match listdirL U L s k with
        | .error e => .error e
        | .ok names => names.foldlM (rmChild U L (fun st c => removedirFuel U L n st c true) k) s
      else .ok s
    match walked with
    | .error e => .error e
    | .ok s1 => dropEmptyDir U L s1 k

/-- length of the longest key either part lists -/
def depthBound (U : StoreOps σu) (L : StoreOps σl) (s : OvState σu σl) : Nat :=
  let ku := match U.keys s.1 with | .ok l => l | .error _ => []
  let kl := match L.keys s.2.1 with | .ok l => l | .error _ => []
  ((ku ++ kl).map List.length).foldl max 0

/-- every level of the recursion descends to a listed key one component longer: `depthBound + 2` levels
always suffice (proved for specification parts in `LiquerProofs/Lemmas/StoreOverlay.lean`) -/
def removedir (U : StoreOps σu) (L : StoreOps σl) (s : OvState σu σl) (k : Key) (recursive : Bool) :
    Except StoreErr (OvState σu σl) :=
  removedirFuel U L (depthBound U L s + 2) s k recursive

end Ov

/-- `OverlayStore(U, L)` -/
def overlayOps {σu σl : Type} (U : StoreOps σu) (L : StoreOps σl) : StoreOps (σu × σl × List Key) where
  getBytes := Ov.getBytes U L
  getMeta := Ov.getMeta U L
  store := Ov.store U L
  storeMeta := Ov.storeMeta U L
  remove := Ov.remove U L
  removedir := Ov.removedir U L
  makedir := Ov.makedir U L
  contains := Ov.contains U L
  isDir := Ov.isDir U L
  keys := Ov.keys U L
  listdir s k := match Ov.listdirL U L s k with
    | .error e => .error e
    | .ok l => .ok (some l)

end Liquer
