/-
M7 (crash part, buffered writes): the same step lists as `CrashSteps.lean`, executed by a process that
**buffers** what it writes.

In `crashAt` an `append` reaches the file at once (write-through).  A real Python process writes into
the user-space buffer of the file object; the bytes reach the file when the buffer fills up, on `flush`
and on `close`.  When the process is killed, what is still in the buffer of a file that has not been
closed is lost.

* `execBuf exec`: the state is the disk `φ` plus one buffer per open file (a file is *open* from its
  `create` to its `close`).  `create` hits the disk at once (`open("wb")` creates / truncates), an
  `append` to an open file only extends its buffer, `close` writes the whole buffer and closes.
  A `rename a b` moves the open file (the descriptor follows the inode) — openness and buffer go from
  `a` to `b`; `unlink` orphans the descriptor.  An `append` to a file that is not open (no writer does
  that) is written through.
* `crashBuf exec n keep steps fs`: the first `n` steps, then the kill: of every file still open an
  *arbitrary prefix* (`keep p` bytes, any function) of what was written to it since its `create` has
  reached the disk, the rest is lost.  (A kill in the middle of a `write` is the kill after it with a
  shorter prefix: nothing is lost by only counting step boundaries.)
* `openAt steps n`: the names open after `n` steps (the same bookkeeping on names only).
* the protocol checks, decidable on concrete step lists:
  `closedBeforeRename` — no `rename a _` while `a` is open (the file is closed before it is published);
  `openUndisturbed` — while a file is open nothing but its own `append`s and `close` mentions it
  (no `mkdir` / `create` / `unlink` of it, no `rename` onto it).
-/
import LiquerModel.CrashSteps

namespace Liquer
namespace Crash

variable {ν φ : Type} [DecidableEq ν]

/-- the open files after one more step -/
def openStep (o : List ν) : Step ν → List ν
  | .mkdir _ => o
  | .create p => p :: o.filter (· != p)
  | .append _ _ => o
  | .close p => o.filter (· != p)
  | .rename a b => if o.contains a then b :: (o.filter (· != a)).filter (· != b) else o.filter (· != b)
  | .unlink p => o.filter (· != p)

/-- the files created and not yet closed within the first `n` steps (a `rename` moves openness) -/
def openAt (steps : List (Step ν)) (n : Nat) : List ν := (steps.take n).foldl openStep []

/-- one step of a buffering process: the disk and the buffers of the open files -/
def execBuf (exec : φ → Step ν → φ) (st : φ × List (ν × Data)) : Step ν → φ × List (ν × Data)
  | .mkdir p => (exec st.1 (.mkdir p), st.2)
  | .create p => (exec st.1 (.create p), AL.set st.2 p [])
  | .append p b => match AL.get st.2 p with
    | some x => (st.1, AL.set st.2 p (x ++ b))
    | none => (exec st.1 (.append p b), st.2)
  | .close p => match AL.get st.2 p with
    | some x => (exec (exec st.1 (.append p x)) (.close p), AL.erase st.2 p)
    | none => (exec st.1 (.close p), st.2)
  | .rename a b => (exec st.1 (.rename a b), match AL.get st.2 a with
    | some x => AL.set (AL.erase st.2 a) b x
    | none => AL.erase st.2 b)
  | .unlink p => (exec st.1 (.unlink p), AL.erase st.2 p)

/-- the kill: of the buffer of every open file `p` the first `keep p` bytes have reached the disk -/
def flushSome (exec : φ → Step ν → φ) (keep : ν → Nat) (st : φ × List (ν × Data)) : φ :=
  st.2.foldl (fun fs e => exec fs (.append e.1 (e.2.take (keep e.1)))) st.1

/-- the disk after a kill of the buffering process behind the first `n` steps -/
def crashBuf (exec : φ → Step ν → φ) (n : Nat) (keep : ν → Nat) (steps : List (Step ν)) (fs : φ) : φ :=
  flushSome exec keep ((steps.take n).foldl (execBuf exec) (fs, []))

/-- no step of the list is `bad` for the files open when it runs -/
def checkFrom (bad : List ν → Step ν → Bool) : List ν → List (Step ν) → Bool
  | _, [] => true
  | o, s :: rest => !bad o s && checkFrom bad (openStep o s) rest

def renamesOpen (o : List ν) : Step ν → Bool
  | .rename a _ => o.contains a
  | _ => false

def disturbsOpen (o : List ν) : Step ν → Bool
  | .mkdir p => o.contains p
  | .create p => o.contains p
  | .unlink p => o.contains p
  | .rename _ b => o.contains b
  | _ => false

/-- every file is closed before it is renamed: no `rename a _` while `a` is open -/
def closedBeforeRename (steps : List (Step ν)) : Bool := checkFrom renamesOpen [] steps

/-- an open file is mentioned by its own `append`s and `close` only (and by the `rename` that moves it) -/
def openUndisturbed (steps : List (Step ν)) : Bool := checkFrom disturbsOpen [] steps

end Crash
end Liquer
