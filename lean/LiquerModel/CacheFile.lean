/-
M4: `liquer.cache.FileCache` and its obfuscating / encrypting subclasses, **as fixed by D6a + D17**:

* `store` = serialise, `remove(key)` (unpublish), write the data file, write the metadata file last —
  each file through a temporary file + `os.replace` (the step-by-step protocol is `CrashSteps.lean`;
  here one operation is one transition);
* `remove` deletes `state_<h>.json` and *every* `data_<h>.*`, whatever the metadata says.

The cache directory is flat: a list of (file name, content).  File names are structured
(`state_<h>.json`, `data_<h>.<ext>`, `tmp_*`); `h` (md5 hex digest of the key), the extension table of the
state types and the codecs are parameters:

* `enc`/`dec`: `FileCache.encode`/`decode` (identity, XOR with the tiled key, Fernet — `dec` fails on
  anything that is not a token),
* `serM`/`deM`: `json.dumps(metadata).encode()` / `json.loads`, `serD`/`deD`: `as_bytes`/`from_bytes` of the
  state type named by `type_identifier`; a failing decoder (`none`) is the Python exception that `get`
  / `_load_metadata` turn into a miss.
-/
import LiquerModel.CacheMem

namespace Liquer

inductive FName where
  | state (h : Str)             -- `state_<h>.json`
  | data (h : Str) (ext : Str)  -- `data_<h>.<ext>`
  | tmp (n : Nat)               -- `tmp_*` (`tempfile.mkstemp`)
  deriving DecidableEq, Repr, Inhabited

abbrev CDir := List (FName × Data)

structure FileCfg where
  h : Str → Str
  ext : Str → Str
  enc : Data → Data
  dec : Data → Option Data
  serM : CMeta → Data
  deM : Data → Option CMeta
  serD : Str → Option Str → Data
  deD : Str → Data → Option (Option Str)

namespace FileC

/-- `_load_metadata`: the file exists and decodes -/
def loadMeta (c : FileCfg) (dir : CDir) (n : FName) : Option CMeta :=
  match AL.get dir n with
  | none => none
  | some b => (c.dec b).bind c.deM

def isDataOf (hk : Str) : FName → Bool
  | .data h' _ => h' == hk
  | _ => false

def get (c : FileCfg) (dir : CDir) (k : Str) : Option CState :=
  match loadMeta c dir (.state (c.h k)) with
  | none => none
  | some m =>
    if m.status != ready then none else
    match AL.get dir (.data (c.h k) (c.ext m.typeId)) with
    | none => none
    | some b => match (c.dec b).bind (c.deD m.typeId) with
      | some v => some { metadata := m, data := v }
      | none => none

def contains (c : FileCfg) (dir : CDir) (k : Str) : Bool :=
  match loadMeta c dir (.state (c.h k)) with
  | none => false
  | some m => m.query == k

def keys (c : FileCfg) (dir : CDir) : List Str :=
  dir.filterMap (fun e => match e.1 with
    | .state _ => ((c.dec e.2).bind c.deM).map (·.query)
    | _ => none)

def remove (c : FileCfg) (dir : CDir) (k : Str) : CDir :=
  (AL.erase dir (.state (c.h k))).filter (fun e => !isDataOf (c.h k) e.1)

def storeMeta (c : FileCfg) (dir : CDir) (m : CMeta) : CDir :=
  AL.set dir (.state (c.h m.query)) (c.enc (c.serM m))

def store (c : FileCfg) (dir : CDir) (st : CState) : CDir :=
  let m := { st.metadata with status := ready }
  let d1 := remove c dir m.query
  let d2 := AL.set d1 (.data (c.h m.query) (c.ext m.typeId)) (c.enc (c.serD m.typeId st.data))
  storeMeta c d2 m

end FileC

def fileCOps (c : FileCfg) : CacheOps CDir where
  get dir k := (dir, FileC.get c dir k)
  getMeta dir k := (dir, FileC.loadMeta c dir (.state (c.h k)))
  store dir st := if st.metadata.isError then (dir, .none) else (FileC.store c dir st, .true)
  storeMeta dir m := (FileC.storeMeta c dir m, true)
  remove dir k := (FileC.remove c dir k, true)
  contains dir k := (dir, FileC.contains c dir k)
  keys dir := (dir, FileC.keys c dir)
  clean _ := []

/-! ### `XORFileCache`: byte-wise XOR with the key tiled to the length of the payload -/

/-- `np.tile(code, reps)` -/
def tile (code : Data) : Nat → Data
  | 0 => []
  | n + 1 => code ++ tile code n

/-- `code_of_length` -/
def codeOfLength (code : Data) (n : Nat) : Data :=
  if n ≤ code.length then code.take n else (tile code (n / code.length + 1)).take n

def xorEnc (code : Data) (b : Data) : Data := List.zipWith (· ^^^ ·) b (codeOfLength code b.length)

end Liquer
