/-
M4: `liquer.cache.SQLCache` / `SQLStringCache` **as fixed by D8 (remove resets the key memo), D9
(`SQLStringCache.from_sqlite` passes `delete_before_insert=True`) and D18 (`get` does not serve a row
without data)**.

The table is the list of its rows in insertion (rowid) order: `INSERT` appends, `DELETE … WHERE query=?`
filters, `SELECT … WHERE query=?` + `fetchone()` yields the oldest matching row.  `_available_keys` is
the memo (`none` = to be recomputed).  `enc`/`dec` = identity (`SQLCache`) or base64 (`SQLStringCache`,
an abstract bijection); `serM`/`deM`, `serD`/`deD` as in `CacheFile.lean`.
-/
import LiquerModel.CacheFile

namespace Liquer

structure SqlCfg where
  deleteBeforeInsert : Bool
  metaEnabled : Bool
  enc : Data → Data
  dec : Data → Option Data
  serM : CMeta → Data
  deM : Data → Option CMeta
  serD : Str → Option Str → Data
  deD : Str → Data → Option (Option Str)

structure SqlRow where
  query : Str
  metadata : Data
  data : Option Data       -- `none` = SQL NULL
  deriving DecidableEq, Repr, Inhabited

structure SqlState where
  rows : List SqlRow := []
  memo : Option (List Str) := none
  deriving Repr, Inhabited

namespace SqlC

def fetchone (s : SqlState) (k : Str) : Option SqlRow := s.rows.find? (fun r => r.query == k)

/-- the `available_keys` property -/
def availableKeys (s : SqlState) : SqlState × List Str :=
  match s.memo with
  | some l => (s, l)
  | none => let l := s.rows.map (·.query); ({ s with memo := some l }, l)

def get (c : SqlCfg) (s : SqlState) (k : Str) : Option CState :=
  match fetchone s k with
  | none => none
  | some r =>
    match c.deM r.metadata with
    | none => none
    | some m =>
      if m.status != ready then none else
      match r.data with
      | none => none
      | some b => match (c.dec b).bind (c.deD m.typeId) with
        | some v => some { metadata := m, data := v }
        | none => none

def insert (c : SqlCfg) (s : SqlState) (r : SqlRow) : SqlState :=
  let rows := if c.deleteBeforeInsert then s.rows.filter (fun x => x.query != r.query) else s.rows
  { rows := rows ++ [r], memo := none }

end SqlC

def sqlCOps (c : SqlCfg) : CacheOps SqlState where
  get s k := (s, SqlC.get c s k)
  getMeta s k := (s, (SqlC.fetchone s k).bind (fun r => c.deM r.metadata))
  store s st :=
    if st.metadata.isError then (s, .none) else
    let m := { st.metadata with status := ready }
    (SqlC.insert c s { query := m.query, metadata := c.serM m, data := some (c.enc (c.serD m.typeId st.data)) }, .true)
  storeMeta s m :=
    if c.metaEnabled then (SqlC.insert c s { query := m.query, metadata := c.serM m, data := none }, true)
    else (s, false)
  remove s k := ({ rows := s.rows.filter (fun x => x.query != k), memo := none }, true)
  contains s k := let (s', l) := SqlC.availableKeys s; (s', l.contains k)
  keys s := SqlC.availableKeys s
  clean _ := { rows := [], memo := some [] }

end Liquer
