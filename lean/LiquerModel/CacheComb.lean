/-
M4: the cache combinators of `liquer.cache` — `NoCache`, `CacheCombine` (`+`, **as fixed by D9b**:
`remove` reaches both parts), `CacheIfHasAttributes`, `CacheIfHasNotAttributes`,
`CacheAttributeCondition`, `CacheProxy` — as functions between `CacheOps`.

Attribute values are rendered as text by the harness (`b:True`, `b:False`, `s:<text>`); `truthy` is
Python truthiness on those renderings, a missing attribute is `False` / `None`.
-/
import LiquerModel.CacheCore

namespace Liquer

def noCOps : CacheOps Unit where
  get s _ := (s, none)
  getMeta s _ := (s, none)
  store s _ := (s, .false)
  storeMeta s _ := (s, false)
  remove s _ := (s, false)
  contains s _ := (s, false)
  keys s := (s, [])
  clean s := s

def combineOps {α β : Type} (A : CacheOps α) (B : CacheOps β) : CacheOps (α × β) where
  get s k :=
    let (a, r) := A.get s.1 k
    match r with
    | some v => ((a, s.2), some v)
    | none => let (b, r2) := B.get s.2 k; ((a, b), r2)
  getMeta s k :=
    let (a, r) := A.getMeta s.1 k
    match r with
    | some v => ((a, s.2), some v)
    | none => let (b, r2) := B.getMeta s.2 k; ((a, b), r2)
  store s st :=
    let (a0, _) := A.remove s.1 st.metadata.query
    let (b0, _) := B.remove s.2 st.metadata.query
    let (a, r) := A.store a0 st
    match r with
    | .true => ((a, b0), .true)
    | _ => let (b, r2) := B.store b0 st; ((a, b), r2)
  storeMeta s m :=
    let (a, r) := A.storeMeta s.1 m
    if r then ((a, s.2), true) else let (b, r2) := B.storeMeta s.2 m; ((a, b), r2)
  remove s k :=
    let (a, r1) := A.remove s.1 k
    let (b, r2) := B.remove s.2 k
    ((a, b), r1 && r2)
  contains s k :=
    let (a, r) := A.contains s.1 k
    if r then ((a, s.2), true) else let (b, r2) := B.contains s.2 k; ((a, b), r2)
  keys s :=
    let (a, k1) := A.keys s.1
    let (b, k2) := B.keys s.2
    ((a, b), k1 ++ k2)
  clean s := (A.clean s.1, B.clean s.2)

def attrLookup (m : CMeta) (a : Str) : Option Str := (m.attrs.find? (fun e => e.1 == a)).map (·.2)

/-- Python truthiness of a rendered attribute value -/
def truthy : Option Str → Bool
  | none => false
  | some v => v != "b:False".toList && v != "s:".toList

/-- a wrapper that forwards everything and guards `store` / `store_metadata` by a predicate on the
metadata; `store` first removes the key (whether or not it then stores); a refused `store_metadata` removes the key too
(an older progress record must not survive the record that was refused) -/
def guardOps {α : Type} (p : CMeta → Bool) (A : CacheOps α) : CacheOps α where
  get := A.get
  getMeta := A.getMeta
  store s st :=
    let (a0, _) := A.remove s st.metadata.query
    if p st.metadata then A.store a0 st else (a0, .false)
  storeMeta s m := if p m then A.storeMeta s m else ((A.remove s m.query).1, false)
  remove := A.remove
  contains := A.contains
  keys := A.keys
  clean := A.clean

/-- `cache.if_contains(*attributes)` -/
def ifHasOps {α : Type} (attrs : List Str) (A : CacheOps α) : CacheOps α :=
  guardOps (fun m => attrs.all (fun a => truthy (attrLookup m a))) A

/-- `cache.if_not_contains(*attributes)` -/
def ifHasNotOps {α : Type} (attrs : List Str) (A : CacheOps α) : CacheOps α :=
  guardOps (fun m => !(attrs.any (fun a => truthy (attrLookup m a)))) A

/-- `cache.if_attribute_equal(a, v)` / `if_attribute_not_equal(a, v)` -/
def attrCondOps {α : Type} (attr value : Str) (equals : Bool) (A : CacheOps α) : CacheOps α :=
  guardOps (fun m => if equals then attrLookup m attr == some value else attrLookup m attr != some value) A

/-- `CacheProxy(cache)` forwards every call (`keys` is materialised as a list) -/
def proxyCOps {α : Type} (A : CacheOps α) : CacheOps α where
  get := A.get
  getMeta := A.getMeta
  store := A.store
  storeMeta := A.storeMeta
  remove := A.remove
  contains := A.contains
  keys := A.keys
  clean := A.clean

end Liquer
