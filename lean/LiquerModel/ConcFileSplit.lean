/-
M7 (concurrency part, file-operation granularity): the reader as TWO file operations.

`FileC.get` / `readSC` read the metadata file and the data file from ONE directory (an atomic reader).  In the code
`FileCache.get(key)` first reads and decodes the metadata file (`state_<h>.json`; a miss unless the status is `ready`) and THEN — a
separate file operation, other threads may run in between — tests / reads the data file `data_<h>.<ext>` of the type the metadata
names and decodes it (a missing data file or a failing decoder is a miss).  `StoreCache.get` on a `FileStore` likewise reads the
metadata file first, then `contains(path)` + `get_bytes(path)`.

* `FileC.getSplit c dM dD k`: exactly `FileC.get`, except that the metadata file is looked up in `dM` and the data file in `dD`
  (`dM` = the directory at the moment of the metadata read, `dD` = the directory at the moment of the data read).
* `readSCSplit deM deD tM tD p`: exactly `readSC`, except that the metadata file is looked up in `tM` and the node in `tD`.
* `readSCSplit3 … tC tM tD p`: additionally the test `contains(path) and not is_dir(path)` that `StoreCache._load_metadata` performs
  before it reads the metadata file, evaluated on a third tree `tC` (it can only turn an answer into a miss).

The existence tests (`os.path.exists`) that precede the two `open(…).read()` are further file operations; a file that vanishes
between test and read raises, which `get` turns into a miss — so every placement of the tests yields the answer of the split reader
or a miss.
-/
import LiquerModel.ConcFileT

namespace Liquer

namespace FileC

/-- `FileCache.get(key)`: metadata file from `dM`, data file from `dD` -/
def getSplit (c : FileCfg) (dM dD : CDir) (k : Str) : Option CState :=
  match loadMeta c dM (.state (c.h k)) with
  | none => none
  | some m =>
    if m.status != ready then none else
    match AL.get dD (.data (c.h k) (c.ext m.typeId)) with
    | none => none
    | some b => match (c.dec b).bind (c.deD m.typeId) with
      | some v => some { metadata := m, data := v }
      | none => none

/-- with one directory the split reader is the atomic reader -/
theorem getSplit_same (c : FileCfg) (d : CDir) (k : Str) : getSplit c d d k = get c d k := rfl

end FileC

namespace Crash

/-- `StoreCache.get(key)` on a `FileStore`: metadata file from `tM`, node (data file) from `tD` -/
def readSCSplit (deM : Data → Option CMeta) (deD : Str → Data → Option (Option Str)) (tM tD : Tree) (p : Key) : Option CState :=
  match AL.get tD (.node p) with
  | some (.file d) =>
    match AL.get tM (.mfile p) with
    | some (.file mb) =>
      match deM mb with
      | some m => if m.status != ready then none else
        match deD m.typeId d with
        | some v => some { metadata := m, data := v }
        | none => none
      | none => none
    | _ => none
  | _ => none

theorem readSCSplit_same (deM : Data → Option CMeta) (deD : Str → Data → Option (Option Str)) (t : Tree) (p : Key) :
    readSCSplit deM deD t t p = readSC deM deD t p := rfl

/-- the same with the test "`p` exists and is not a directory" of `_load_metadata` on a tree of its own -/
def readSCSplit3 (deM : Data → Option CMeta) (deD : Str → Data → Option (Option Str)) (tC tM tD : Tree) (p : Key) : Option CState :=
  match AL.get tC (.node p) with
  | some (.file _) => readSCSplit deM deD tM tD p
  | _ => none

theorem readSCSplit3_same (deM : Data → Option CMeta) (deD : Str → Data → Option (Option Str)) (t : Tree) (p : Key) :
    readSCSplit3 deM deD t t t p = readSC deM deD t p := by
  simp only [readSCSplit3, readSCSplit, readSC]
  cases AL.get t (.node p) with
  | none => rfl
  | some x => cases x <;> rfl

end Crash
end Liquer
