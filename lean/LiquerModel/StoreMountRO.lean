/-
M5: `store.read_only().mount(key, other)` — a `MountPointStore` whose DEFAULT store is a `ReadOnlyStore` view.

`Store.mount` is `MountPointStore(self).mount(key, store)`: called on a read-only view it builds a composite whose
default store is the VIEW (not the store under it) and whose routing table holds `other` at `key`.  `mountOps` serves
all parts of one composite by one part model, so the parts are TAGGED: `.ro s` is a read-only view of a store in
state `s`, `.rw s` a plain store in state `s`; `partOps S` behaves as `readOnlyOps S` on the former and as `S` on
the latter (the tag never changes).
-/
import LiquerModel.StoreMount
import LiquerModel.StoreProxy

namespace Liquer
variable {σ : Type}

/-- a part of a composite: a read-only view of a store in state `s`, or a plain store in state `s` -/
inductive Part (σ : Type) where
  | ro (s : σ)
  | rw (s : σ)
  deriving DecidableEq, Repr

namespace Part

/-- the state of the store the part is (or is a view of) -/
def state : Part σ → σ
  | .ro s => s
  | .rw s => s

def isRO : Part σ → Bool
  | .ro _ => true
  | .rw _ => false

/-- a read through a part: the view forwards to `readOnlyOps S`, the plain store to `S` -/
def read {α : Type} (S : StoreOps σ) (p : Part σ) (f : StoreOps σ → σ → Except StoreErr α) : Except StoreErr α :=
  match p with
  | .ro s => f (readOnlyOps S) s
  | .rw s => f S s

/-- a mutator through a part; the result keeps the tag -/
def write (S : StoreOps σ) (p : Part σ) (f : StoreOps σ → σ → Except StoreErr σ) : Except StoreErr (Part σ) :=
  match p with
  | .ro s => (f (readOnlyOps S) s).map .ro
  | .rw s => (f S s).map .rw

end Part

/-- the part model: `ReadOnlyStore(S)` on `.ro s`, `S` itself on `.rw s` -/
def partOps (S : StoreOps σ) : StoreOps (Part σ) where
  getBytes p k := p.read S (fun Q st => Q.getBytes st k)
  getMeta p k := p.read S (fun Q st => Q.getMeta st k)
  store p k d m := p.write S (fun Q st => Q.store st k d m)
  storeMeta p k m := p.write S (fun Q st => Q.storeMeta st k m)
  remove p k := p.write S (fun Q st => Q.remove st k)
  removedir p k r := p.write S (fun Q st => Q.removedir st k r)
  makedir p k := p.write S (fun Q st => Q.makedir st k)
  contains p k := p.read S (fun Q st => Q.contains st k)
  isDir p k := p.read S (fun Q st => Q.isDir st k)
  keys p := p.read S (fun Q st => Q.keys st)
  listdir p k := p.read S (fun Q st => Q.listdir st k)

/-- `store.read_only().mount(key, other)`: default = the view of `store` (state `s`), `other` mounted at `key` -/
def viewMount (s : σ) (key : Key) (other : σ) : MtState (Part σ) := (some (.ro s), [(key, .rw other)])

/-- what a `mount` that forgets the view would build: the default store is the underlying store itself -/
def bypassMount (s : σ) (key : Key) (other : σ) : MtState (Part σ) := (some (.rw s), [(key, .rw other)])

/-- a history on a composite, with the state the harness observes after every operation (`Mt.stepX`: a raising
recursive `removedir` keeps what it had already deleted) -/
def Mt.runX (P : StoreOps σ) (supp : σ → Key → Bool) (s : MtState σ) (h : List StoreOp) : MtState σ :=
  h.foldl (Mt.stepX P supp) s

end Liquer
