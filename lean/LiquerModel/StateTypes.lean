/-
M8: state types — what is LiQuer's own logic in `liquer/state_types.py`: DISPATCH and FRAMING.

Mirrors (modelled, tied by the C11 correspondence streams):
  * `StateTypesRegistry.get`, `encode_state_data`, `decode_state_data`, `copy_state_data` -> `Registry.get`,
    `encodeStateData`, `decodeStateData`, `copyStateData` (dispatch over an abstract third-party codec);
  * the media type every core state type reports for an extension                       -> `mimeModel`;
  * `DictStateType.as_bytes(…, "djson")` / `from_bytes(…, "djson")`, `encode_element`, `decode_element`
    -> `toDjson`, `fromDjson`, `encodeElement`, `parseElement` (line framing `"key":  element`, base64 triples);
  * `json.dumps(key)` (ensure_ascii) / the string scanner of `json.loads`             -> `jsonEscape`, `parseJStr`.

The registry *content* (identifiers, qualified names, default extensions, extensions written / read,
`MIMETYPES`) is regenerated from the live objects into `Gen/StateTypes.lean`.
No imports outside `LiquerModel`: linked into the `driver` executable.
-/
import LiquerModel.Ast

namespace Liquer.StateTypes
open Liquer

/-! ### registry dispatch -/

/-- one state type object as probed by the translator -/
structure Row where
  /-- `identifier()` -/
  ident : Str
  /-- qualified name of the state type's class (informational; all objects with one identifier share it) -/
  cls : Str
  /-- `default_extension()` -/
  defaultExt : Str
  /-- extensions `as_bytes` accepts for the sample values, with the media type it reports -/
  writes : List (Str × Str)
  /-- extensions among `writes` whose bytes `from_bytes` accepts -/
  reads : List Str
deriving DecidableEq, Repr

structure Registry where
  /-- the distinct state types (one row per identifier), the default one included -/
  rows : List Row
  /-- `state_types_dictionary`: key (qualified type name or identifier) ↦ identifier of the object stored there -/
  dict : List (Str × Str)
  /-- identifier of `default_state_type` -/
  default : Str
deriving Repr

def lookup (k : Str) : List (Str × Str) → Option Str
  | [] => none
  | (a, b) :: rest => if a = k then some b else lookup k rest

/-- `StateTypesRegistry.get(type_qualname)` — the identifier of the state type object returned
(unknown names fall back to `default_state_type`) -/
def Registry.get (reg : Registry) (k : Str) : Str := (lookup k reg.dict).getD reg.default

def Registry.row (reg : Registry) (ident : Str) : Option Row := reg.rows.find? (fun r => r.ident = ident)

def Row.writesExt (r : Row) (e : Str) : Bool := r.writes.any (fun w => w.1 = e)
def Row.readsExt (r : Row) (e : Str) : Bool := r.reads.contains e
def Row.mimeOf (r : Row) (e : Str) : Option Str := lookup e r.writes

/-- the decidable side condition re-proved for the regenerated registry:
  1. every row is the row selected through its own identifier (the identifier recorded at encoding time
     selects the same state type), its default extension is written and read, and what is read is written;
  2. every dictionary entry points at a probed row whose identifier is a fixed point of `get`;
  3. the default state type is a probed row and a fixed point of `get`. -/
def regOK (reg : Registry) : Bool :=
  reg.rows.all (fun r =>
    reg.row (reg.get r.ident) == some r && r.writesExt r.defaultExt && r.readsExt r.defaultExt &&
    r.reads.all r.writesExt) &&
  reg.dict.all (fun kv => (reg.row kv.2).isSome && reg.get kv.2 == kv.2) &&
  (reg.row reg.default).isSome && reg.get reg.default == reg.default

/-! ### registration histories (`StateTypesRegistry.register`) -/

/-- a state type object as the registry sees it: a name for the object and its `identifier()` -/
structure Obj where
  name : Str
  ident : Str
deriving DecidableEq, Repr

/-- `dict[k] = o` -/
def setKey (d : List (Str × Obj)) (k : Str) (o : Obj) : List (Str × Obj) := (k, o) :: d.filter (fun e => e.1 ≠ k)

def lookupO (k : Str) : List (Str × Obj) → Option Obj
  | [] => none
  | (a, b) :: rest => if a = k then some b else lookupO k rest

/-- `register(type_qualname, state_type)`: the one dictionary gets the object under the qualified type name AND under its identifier,
both overwriting what was there -/
def register (d : List (Str × Obj)) (qual : Str) (o : Obj) : List (Str × Obj) := setKey (setKey d qual o) o.ident o

def registerAll (d : List (Str × Obj)) (calls : List (Str × Obj)) : List (Str × Obj) :=
  calls.foldl (fun d c => register d c.1 c.2) d

/-- third-party part of a state type: what `as_bytes` / `from_bytes` / `copy` do for a (type, extension)
pair, and the qualified type name of a value. `none` = the call raises. -/
structure Codec (V B : Type) where
  /-- `get_type_qualname(type(data))` -/
  typeOf : V → Str
  /-- `as_bytes(data, ext)` of the state type with that identifier -/
  enc : Str → Str → V → Option B
  /-- `from_bytes(b, ext)` -/
  dec : Str → Str → B → Option V
  /-- `copy(data)` -/
  copy : Str → V → Option V

/-- the extension a state type uses when `extension=None` -/
def extOr (reg : Registry) (tid : Str) (ext : Option Str) : Option Str :=
  match ext with
  | some e => some e
  | none => (reg.row tid).map (·.defaultExt)

/-- `encode_state_data(data, extension)` → `(bytes, mimetype, type identifier)`; `none` = raises
(the state type does not write that extension, or the codec fails) -/
def encodeStateData {V B} (reg : Registry) (c : Codec V B) (x : V) (ext : Option Str) : Option (B × Str × Str) :=
  let tid := reg.get (c.typeOf x)
  match reg.row tid, extOr reg tid ext with
  | some r, some e =>
    match r.mimeOf e, c.enc tid e x with
    | some m, some b => some (b, m, tid)
    | _, _ => none
  | _, _ => none

/-- `decode_state_data(b, type_identifier, extension)` -/
def decodeStateData {V B} (reg : Registry) (c : Codec V B) (b : B) (tid : Str) (ext : Option Str) : Option V :=
  let t := reg.get tid
  match extOr reg t ext with
  | some e => c.dec t e b
  | none => none

/-- `copy_state_data(data)` -/
def copyStateData {V B} (reg : Registry) (c : Codec V B) (x : V) : Option V :=
  c.copy (reg.get (c.typeOf x)) x

/-! ### media type reported for an extension (hand model of the six core state types) -/

def octet : Str := ['a', 'p', 'p', 'l', 'i', 'c', 'a', 't', 'i', 'o', 'n', '/', 'o', 'c', 't', 'e', 't', '-', 's', 't', 'r', 'e', 'a', 'm']
def textPlain : Str := ['t', 'e', 'x', 't', '/', 'p', 'l', 'a', 'i', 'n']

/-- `mimetype_from_extension(ext, default)` over the regenerated `MIMETYPES` -/
def mimeFromExt (mt : List (Str × Str)) (e : Str) (dflt : Str) : Str := (lookup e mt).getD dflt

/-- media type `as_bytes(data, ext)` reports, per core state type, for an explicitly given extension
(`none`: the type refuses the extension). `isStr`: the value is a `str` (affects nothing here, the
`html` branch reports the same type either way). -/
def mimeModel (mt : List (Str × Str)) (ident e : Str) : Option Str :=
  let m := mimeFromExt mt e octet
  if ident = ['b', 'y', 't', 'e', 's'] then some m
  else if ident = ['t', 'e', 'x', 't'] then some (mimeFromExt mt e textPlain)
  else if ident = ['d', 'i', 'c', 't', 'i', 'o', 'n', 'a', 'r', 'y'] then
    (if e = ['d', 'j', 's', 'o', 'n'] ∨ e = ['j', 's', 'o', 'n'] then some m else none)
  else if ident = ['g', 'e', 'n', 'e', 'r', 'i', 'c'] then
    (if e = ['j', 's', 'o', 'n'] then some (mimeFromExt mt ['j', 's', 'o', 'n'] textPlain)
     else if e = ['h', 't', 'm', 'l'] ∨ e = ['h', 't', 'm'] then some (mimeFromExt mt ['h', 't', 'm', 'l'] octet) else none)
  else if ident = ['p', 'i', 'c', 'k', 'l', 'e'] then
    (if e = ['p', 'k', 'l'] ∨ e = ['p', 'i', 'c', 'k', 'l', 'e'] then some (mimeFromExt mt ['p', 'i', 'c', 'k', 'l', 'e'] octet)
     else if e = ['j', 's', 'o', 'n'] then some (mimeFromExt mt ['j', 's', 'o', 'n'] octet)
     else if e = ['h', 't', 'm', 'l'] ∨ e = ['h', 't', 'm'] then some (mimeFromExt mt ['h', 't', 'm', 'l'] octet) else none)
  else none

/-- rows of core state types agree with the hand model on every extension they were probed to write -/
def mimeAgree (mt : List (Str × Str)) (reg : Registry) : Bool :=
  reg.rows.all (fun r =>
    (mimeModel mt r.ident r.defaultExt).isNone ||
    r.writes.all (fun w => mimeModel mt r.ident w.1 == some w.2))

/-! ### JSON string escaping of keys: `json.dumps(key)` (ensure_ascii) and the scanner of `json.loads` -/

def hexLower (n : Nat) : Char :=
  if n < 10 then Char.ofNat (48 + n) else Char.ofNat (87 + n)

def hex4 (n : Nat) : List Char :=
  [hexLower (n / 4096 % 16), hexLower (n / 256 % 16), hexLower (n / 16 % 16), hexLower (n % 16)]

/-- `'\\u{0:04x}'.format(n)` -/
def uEsc (n : Nat) : List Char := '\\' :: 'u' :: hex4 n

/-- one character of `json.dumps(s)[1:-1]`: `ESCAPE_DCT` for `"`, `\`, `\n`, `\r`, `\t`, `\b`, `\f`;
printable ASCII (`' '..'~'`) verbatim; everything else `\uXXXX` (UTF-16 surrogate pair above U+FFFF). -/
def escChar (c : Char) : List Char :=
  if c = '"' then ['\\', '"']
  else if c = '\\' then ['\\', '\\']
  else if c = '\n' then ['\\', 'n']
  else if c = '\r' then ['\\', 'r']
  else if c = '\t' then ['\\', 't']
  else if c = Char.ofNat 8 then ['\\', 'b']
  else if c = Char.ofNat 12 then ['\\', 'f']
  else if 32 ≤ c.toNat ∧ c.toNat ≤ 126 then [c]
  else if c.toNat < 65536 then uEsc c.toNat
  else uEsc (55296 + (c.toNat - 65536) / 1024) ++ uEsc (56320 + (c.toNat - 65536) % 1024)

/-- `json.dumps(s)` without the surrounding quotes -/
def jsonEscape (s : Str) : Str := s.flatMap escChar

/-- `json.dumps(s)` for a `str` -/
def jsonString (s : Str) : Str := '"' :: jsonEscape s ++ ['"']

def hex4Val (a b c d : Char) : Option Nat :=
  match hexVal? a, hexVal? b, hexVal? c, hexVal? d with
  | some x, some y, some z, some w => some (x * 4096 + y * 256 + z * 16 + w)
  | _, _, _, _ => none

/-- `BACKSLASH` of json.decoder -/
def simpleEsc (c : Char) : Option Char :=
  if c = '"' then some '"'
  else if c = '\\' then some '\\'
  else if c = '/' then some '/'
  else if c = 'b' then some (Char.ofNat 8)
  else if c = 'f' then some (Char.ofNat 12)
  else if c = 'n' then some '\n'
  else if c = 'r' then some '\r'
  else if c = 't' then some '\t'
  else none

/-- body of a JSON string up to the closing quote as a list of code units / code points (`\uXXXX` gives
the number, everything else its code point); strict mode: raw control characters are rejected. Returns the
units and the text after the closing quote. -/
def units : List Char → Option (List Nat × List Char)
  | [] => none
  | c :: rest =>
    if c = '"' then some ([], rest)
    else if c = '\\' then
      match rest with
      | [] => none
      | e :: rest1 =>
        if e = 'u' then
          match rest1 with
          | a :: b :: c' :: d :: rest2 =>
            match hex4Val a b c' d with
            | some n => (units rest2).map (fun p => (n :: p.1, p.2))
            | none => none
          | _ => none
        else
          match simpleEsc e with
          | some ch => (units rest1).map (fun p => (ch.toNat :: p.1, p.2))
          | none => none
    else if c.toNat < 32 then none
    else (units rest).map (fun p => (c.toNat :: p.1, p.2))

/-- join UTF-16 surrogate pairs; a lone surrogate (a Python `str` that is not a scalar-value string) is
outside the model: `none` -/
def joinSurr : List Nat → Option (List Char)
  | [] => some []
  | n :: rest =>
    if 55296 ≤ n ∧ n < 56320 then
      match rest with
      | m :: rest' =>
        if 56320 ≤ m ∧ m < 57344 then
          (joinSurr rest').map (fun s => Char.ofNat (65536 + (n - 55296) * 1024 + (m - 56320)) :: s)
        else none
      | [] => none
    else if 56320 ≤ n ∧ n < 57344 then none
    else (joinSurr rest).map (fun s => Char.ofNat n :: s)

/-- the JSON string scanner positioned just after the opening quote: decoded text and the rest -/
def parseJStr (t : List Char) : Option (Str × List Char) :=
  match units t with
  | some (us, rest) => (joinSurr us).map (fun s => (s, rest))
  | none => none

/-! ### `djson`: the line-oriented dictionary format -/

/-- `"%-Ns" % s` -/
def padRight (n : Nat) (s : List Char) : List Char := s ++ List.replicate (n - s.length) ' '

def joinStr (sep : List Char) : List (List Char) → List Char
  | [] => []
  | [w] => w
  | w :: ws => w ++ sep ++ joinStr sep ws

/-- `"%-20s" % (json.dumps(key) + ":")` -/
def fmtKey (k : Str) : List Char := padRight 20 (jsonString k ++ [':'])

def memberLine {E} (encE : E → List Char) (kv : Str × E) : List Char := fmtKey kv.1 ++ encE kv.2

def membersText {E} (encE : E → List Char) (d : List (Str × E)) : List Char :=
  joinStr [',', '\n'] (d.map (memberLine encE))

/-- `DictStateType.as_bytes(data, "djson")` as text (before UTF-8 encoding; the text is ASCII whenever the
elements are) -/
def toDjson {E} (encE : E → List Char) (d : List (Str × E)) : List Char :=
  ['{', '\n'] ++ membersText encE d ++ ['\n', '}']

def isWs (c : Char) : Bool := c = ' ' || c = '\n' || c = '\r' || c = '\t'

def skipWs : List Char → List Char
  | [] => []
  | c :: cs => if isWs c then skipWs cs else c :: cs

/-- members of a JSON object, positioned at the opening quote of a key; element parser abstract -/
def parseMembers {E} (parseE : List Char → Option (E × List Char)) :
    Nat → List Char → List (Str × E) → Option (List (Str × E) × List Char)
  | 0, _, _ => none
  | fuel + 1, t, acc =>
    match t with
    | '"' :: t1 =>
      match parseJStr t1 with
      | some (k, t2) =>
        match skipWs t2 with
        | ':' :: t3 =>
          match parseE (skipWs t3) with
          | some (v, t4) =>
            match skipWs t4 with
            | ',' :: t5 => parseMembers parseE fuel (skipWs t5) (acc ++ [(k, v)])
            | '}' :: t5 => some (acc ++ [(k, v)], t5)
            | _ => none
          | none => none
        | _ => none
      | none => none
    | _ => none

/-- `json.loads` on an object whose values are parsed by `parseE`: the list of (key, value) pairs in
document order; `none` = not in the modelled fragment / `JSONDecodeError` -/
def parseObject {E} (parseE : List Char → Option (E × List Char)) (t : List Char) : Option (List (Str × E)) :=
  match skipWs t with
  | '{' :: t1 =>
    match skipWs t1 with
    | '}' :: t2 => if (skipWs t2).isEmpty then some [] else none
    | t1' =>
      match parseMembers parseE t.length t1' [] with
      | some (ms, t2) => if (skipWs t2).isEmpty then some ms else none
      | none => none
  | _ => none

/-- `d[key] = value` on an insertion-ordered dictionary -/
def dictSet {E} (d : List (Str × E)) (kv : Str × E) : List (Str × E) :=
  match d with
  | [] => [kv]
  | (k, v) :: rest => if k = kv.1 then (k, kv.2) :: rest else (k, v) :: dictSet rest kv

/-- a Python `dict` built from pairs in order (later duplicates overwrite the value in place) -/
def dictOfPairs {E} (ps : List (Str × E)) : List (Str × E) := ps.foldl dictSet []

/-- `DictStateType.from_bytes(b, "djson")` on the decoded text -/
def fromDjson {E} (parseE : List Char → Option (E × List Char)) (t : List Char) : Option (List (Str × E)) :=
  (parseObject parseE t).map dictOfPairs

/-! ### elements: `encode_element` / `decode_element` -/

/-- what `encode_element` / `decode_element` use of the outside world -/
structure ElemEnv (V B : Type) where
  /-- `isinstance(v, (int, float, str)) or v is None` -/
  isScalar : V → Bool
  /-- `json.dumps(v)` for such a value -/
  jsonDumps : V → List Char
  /-- the JSON scanner on a scalar: value and rest -/
  parseScalar : List Char → Option (V × List Char)
  /-- identifier of the state type registered for the value's type -/
  typeId : V → Str
  /-- the extension `encode_element` uses: the type's `default_extension()`, `djson` for a nested dictionary -/
  ext : V → Str
  /-- `t.as_bytes(v, ext)[0]` -/
  asBytes : V → B
  /-- `base64.b64encode(b).decode("utf-8")` -/
  b64 : B → List Char
  /-- `base64.b64decode` -/
  unb64 : List Char → Option B
  /-- `decode_state_data(b, type_identifier, extension)` -/
  decode : B → Str → Str → Option V

/-- `'[%-10s, %-4s, "%s"]' % ('"tid"', '"ext"', b64)` -/
def tripleText (tid ext txt : List Char) : List Char :=
  '[' :: padRight 10 ('"' :: tid ++ ['"']) ++ [',', ' '] ++ padRight 4 ('"' :: ext ++ ['"']) ++
    [',', ' ', '"'] ++ txt ++ ['"', ']']

/-- `DictStateType.encode_element` -/
def encodeElement {V B} (env : ElemEnv V B) (v : V) : List Char :=
  if env.isScalar v then env.jsonDumps v
  else tripleText (env.typeId v) (env.ext v) (env.b64 (env.asBytes v))

/-- a JSON array of exactly three strings, positioned after `[` -/
def parseTriple (t : List Char) : Option ((Str × Str × Str) × List Char) :=
  match skipWs t with
  | '"' :: t1 =>
    match parseJStr t1 with
    | some (a, t2) =>
      match skipWs t2 with
      | ',' :: t3 =>
        match skipWs t3 with
        | '"' :: t4 =>
          match parseJStr t4 with
          | some (b, t5) =>
            match skipWs t5 with
            | ',' :: t6 =>
              match skipWs t6 with
              | '"' :: t7 =>
                match parseJStr t7 with
                | some (c, t8) =>
                  match skipWs t8 with
                  | ']' :: t9 => some ((a, b, c), t9)
                  | _ => none
                | none => none
              | _ => none
            | _ => none
          | none => none
        | _ => none
      | _ => none
    | none => none
  | _ => none

/-- the JSON value scanner followed by `decode_element`: a list is a `(type identifier, extension, base64)`
triple handed to `decode_state_data`, anything else is a scalar kept as it is -/
def parseElement {V B} (env : ElemEnv V B) (t : List Char) : Option (V × List Char) :=
  match t with
  | '[' :: t1 =>
    match parseTriple t1 with
    | some ((tid, ext, txt), rest) =>
      match env.unb64 txt with
      | some b => (env.decode b tid ext).map (fun v => (v, rest))
      | none => none
    | none => none
  | _ => env.parseScalar t

/-! ### a concrete element codec for the correspondence stream: ints and strings -/

inductive Scalar where
  | int (neg : Bool) (digits : List Char)
  | str (s : Str)
deriving DecidableEq, Repr

def Scalar.dumps : Scalar → List Char
  | .int neg ds => (if neg then ['-'] else []) ++ ds
  | .str s => jsonString s

def isDigit (c : Char) : Bool := '0' ≤ c && c ≤ '9'

/-- JSON forbids leading zeros -/
def leadingZero (ds : List Char) : Bool :=
  match ds with
  | '0' :: _ :: _ => true
  | _ => false

def Scalar.parse (t : List Char) : Option (Scalar × List Char) :=
  match t with
  | '"' :: t1 => (parseJStr t1).map (fun p => (.str p.1, p.2))
  | '-' :: t1 =>
    let ds := t1.takeWhile isDigit
    if ds.isEmpty || leadingZero ds then none else some (.int true ds, t1.dropWhile isDigit)
  | _ =>
    let ds := t.takeWhile isDigit
    if ds.isEmpty || leadingZero ds then none else some (.int false ds, t.dropWhile isDigit)

end Liquer.StateTypes
