/-
M4: `liquer.cache.StoreCache(store, path, flat)` over **any** store model `StoreOps σ`.

* `to_path`: flat = `<path>/0state_<h(key)>.data`, nested = `<path>/<key>/0state_.data`, built as a
  *string* (one leading `/` stripped) and handed to the store, which sees `key.split("/")`.
* the cache metadata travels as the user part of the store metadata (`encM`/`decM` — the dictionary
  itself in Python); `serD`/`deD` are `as_bytes`/`from_bytes`.
* exceptions of the store inside `get`/`get_metadata`/`contains`/`keys` are not caught by the Python
  class; the model answers "nothing" there (the harness reports a raised exception as such).
-/
import LiquerModel.CacheMem

namespace Liquer

structure StoreCCfg where
  path : Str                 -- `self.path`
  flat : Bool
  h : Str → Str
  encM : CMeta → Str
  decM : Str → Option CMeta
  serD : Str → Option Str → Data
  deD : Str → Data → Option (Option Str)

namespace StoreC

/-- `str.split("/")` -/
def splitSlash : List Char → List Str
  | [] => [[]]
  | c :: cs =>
    match splitSlash cs with
    | [] => [[]]
    | w :: ws => if c = '/' then [] :: w :: ws else (c :: w) :: ws

def stripSlash : Str → Str
  | '/' :: r => r
  | s => s

/-- `to_path(key)` as a string -/
def pathStr (c : StoreCCfg) (k : Str) : Str :=
  stripSlash (if c.flat then c.path ++ "/0state_".toList ++ c.h k ++ ".data".toList
              else c.path ++ ['/'] ++ k ++ "/0state_.data".toList)

def toPath (c : StoreCCfg) (k : Str) : Key := splitSlash (pathStr c k)

def okB {ε α} (d : α) : Except ε α → α
  | .ok a => a
  | .error _ => d

/-- `key.startswith(prefix)` on the string level -/
def strStartsWith (key : Key) (pre : Str) : Bool := pre.isPrefixOf (List.intercalate ['/'] key)

/-- `_load_metadata` -/
def loadMeta {σ} (S : StoreOps σ) (s : σ) (p : Key) : Option MetaObs :=
  if okB false (S.contains s p) && !(okB true (S.isDir s p)) then
    match S.getMeta s p with
    | .ok m => some m
    | .error _ => none
  else none

def get {σ} (c : StoreCCfg) (S : StoreOps σ) (s : σ) (k : Str) : Option CState :=
  match (loadMeta S s (toPath c k)).bind (fun mo => c.decM mo.user) with
  | none => none
  | some m =>
    if m.status != ready then none else
    if okB false (S.contains s (toPath c k)) then
      match S.getBytes s (toPath c k) with
      | .ok b => match c.deD m.typeId b with
        | some v => some { metadata := m, data := v }
        | none => none
      | .error _ => none
    else none

def keys {σ} (c : StoreCCfg) (S : StoreOps σ) (s : σ) : List Str :=
  (okB [] (S.keys s)).filterMap (fun key =>
    if (c.path.isEmpty || strStartsWith key (c.path ++ ['/'])) && !(okB true (S.isDir s key)) then
      match S.getMeta s key with
      | .ok mo => (c.decM mo.user).map (·.query)
      | .error _ => none
    else none)

def depth (k : Key) : Nat := k.length

/-- `clean`: files below the cache path first, then the directories, deepest first -/
def clean {σ} (c : StoreCCfg) (S : StoreOps σ) (s : σ) : σ :=
  let pre := if c.path.isEmpty then [] else c.path ++ ['/']
  let s1 := (okB [] (S.keys s)).foldl (fun st key =>
    if !(okB true (S.isDir st key)) && strStartsWith key pre then okB st (S.remove st key) else st) s
  let ks := okB [] (S.keys s1)
  let maxd := ks.foldl (fun m k => max m (depth k)) 0
  (List.range (maxd + 1)).reverse.foldl (fun st d =>
    (ks.filter (fun k => depth k == d)).foldl (fun st key =>
      if okB false (S.isDir st key) && strStartsWith key pre then okB st (S.removedir st key false) else st) st) s1

end StoreC

def storeCOps {σ : Type} (c : StoreCCfg) (S : StoreOps σ) : CacheOps σ where
  get s k := (s, StoreC.get c S s k)
  getMeta s k := (s, (StoreC.loadMeta S s (StoreC.toPath c k)).bind (fun mo => c.decM mo.user))
  store s st :=
    if st.metadata.isError then (s, .none) else
    let m := { st.metadata with status := ready }
    match S.store s (StoreC.toPath c m.query) (c.serD m.typeId st.data) { user := c.encM m } with
    | .ok s' => (s', .true)
    | .error _ => (s, .false)
  storeMeta s m :=
    match S.storeMeta s (StoreC.toPath c m.query) { user := c.encM m } with
    | .ok s' => (s', true)
    | .error _ => (s, false)
  remove s k :=
    match S.remove s (StoreC.toPath c k) with
    | .ok s' => (s', true)
    | .error _ => (s, false)
  contains s k := (s, StoreC.okB false (S.contains s (StoreC.toPath c k)))
  keys s := (s, StoreC.keys c S s)
  clean s := StoreC.clean c S s

/-- `path.lstrip("/")` -/
def StoreC.normPath : Str → Str
  | '/' :: r => StoreC.normPath r
  | s => s

/-- the configuration `StoreCache.__init__` keeps: `self.path = path.lstrip("/")` (entries are filed under the path without
leading slashes — `to_path` —, `keys()` and `clean()` look there too) -/
def StoreCCfg.norm (c : StoreCCfg) : StoreCCfg := { c with path := StoreC.normPath c.path }

/-- the directory part of `StoreCache.__init__` (for the path it keeps): the cache directory is created if it is not there -/
def storeCInit {σ : Type} (c : StoreCCfg) (S : StoreOps σ) (s : σ) : σ :=
  if StoreC.okB false (S.isDir s (StoreC.splitSlash c.path)) then s else StoreC.okB s (S.makedir s (StoreC.splitSlash c.path))

/-- **`StoreCache(store, path, flat)`**: the operations of the constructed cache … -/
def storeCacheOps {σ : Type} (c : StoreCCfg) (S : StoreOps σ) : CacheOps σ := storeCOps c.norm S

/-- … and the store it leaves behind -/
def storeCacheNew {σ : Type} (c : StoreCCfg) (S : StoreOps σ) (s : σ) : σ := storeCInit c.norm S s

end Liquer
