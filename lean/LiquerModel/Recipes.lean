/-
M6: `liquer.recipes.RecipeSpecStore` (= `NewRecipeSpecStore`) as a layer over an arbitrary store model
`S : StoreOps σ`, mounted in the global store under the key `cfg.root`.

Modelled code (what it DOES, `/repo` + the proposed fix `C08-store-key-extension`):

* `resolve_recipe_definition` / `update_recipes` (`Rcp.resolve`, `Rcp.declare`): the text of a recipe is parsed,
  made absolute against the *root key* of the recipe's directory (`Query.to_absolute(cwd)`, default
  resource-segment name `""`) and encoded again; key = `cwd/filename`; plain form: no title/description,
  dictionary form: `title` defaults to the file name, `description` to `"Generated from query: " + query`;
  `recipe_name = <root key of recipes.yaml> + "/" + "-Ryaml" + "/" + <section> + "/" + <index> + "#" + <filename>`; `recipes` is a Python
  dictionary (a later definition of the same key replaces the earlier one in place).
* reads `get_metadata`, `contains`, `is_dir`, `keys`, `listdir`: sub-store first, then the declared recipes.
* `get_bytes`: present in the sub-store (`substore.contains`) → served; otherwise `make`, then the sub-store's bytes.
* `make`: `QueryRecipe.make(to_root_key(key))` = `Context.evaluate(query, store_key=…)` whose `_store_state`
  writes back *through the global store* (so through this store's own `store` / `store_metadata`), then the
  metadata merge (`recipe_metadata`, status `none → ready`, error flag, `add_recipe_dependency`) written with
  `substore.store_metadata`, then the change notifications.
* `Context.evaluate` is abstracted: `evalQ text ext` is the serialised result of evaluating the (resolved) query
  text directly (`none` = the evaluation ends in an error state or the result cannot be encoded with the
  extension `ext`).  What is modelled of it is the control flow that touches the store: a query whose first segment
  is a resource segment reads that key through the global store first (`get_metadata`, then `get_bytes`, which may
  `make` another recipe - recursion bounded by fuel); missing metadata makes the evaluation fail *without* running
  the transformation, a failing `get_bytes` does not (the transformation runs on `None`).  `log` records the keys
  whose transformation part was executed, most recent first (the evaluation counter is its length).
* `_store_state` (with the fix): the extension handed to the serialiser is that of the key's name (everything after
  the first dot), the query's file-name extension only when the key's name has no dot.
* `recipes_status.txt`: every change notification rewrites the status file of the directory
  (`create_status`); its text is not modelled (empty data), observations mask the file.
* `clean_recipes` (`liquer.ext.meta`) on a directory of this store.

Not modelled: `ignore` (keys with components starting with `.`), re-loading of `recipes.yaml` (YAML text is not
modelled; the declarations are fixed when the state is created), log/message fields, `recipes_key`.
-/
import LiquerModel.StoreCore
import LiquerModel.Paths

namespace Liquer
namespace Rcp

/-! ### metadata as far as the property talks about it, and its serialisation into the `user` token -/

/-- `Status` values the recipe machinery produces (`other`: anything else, e.g. `side-effect`) -/
inductive RStatus where
  | unset | recipe | ready | error | other
  deriving DecidableEq, Repr, Inhabited

structure RMeta where
  status : RStatus := .unset
  title : Option Str := none
  descr : Option Str := none
  hasRecipe : Bool := false
  depName : Option Str := none       -- `dependencies.recipe.name`
  depVersion : Option Str := none    -- `dependencies.recipe.version`
  deriving DecidableEq, Repr, Inhabited

def encStatus : RStatus → Char
  | .unset => 'n' | .recipe => 'r' | .ready => 'y' | .error => 'e' | .other => 'o'

def decStatus (c : Char) : RStatus :=
  if c = 'r' then .recipe else if c = 'y' then .ready else if c = 'e' then .error else if c = 'o' then .other else .unset

/-- a string as unary length, `|`, the characters -/
def encField (s : Str) : Str := List.replicate s.length 'x' ++ '|' :: s

/-- number of leading `x` and the rest after the `|` -/
def splitLen : Str → Nat × Str
  | [] => (0, [])
  | c :: cs => if c = 'x' then let r := splitLen cs; (r.1 + 1, r.2) else (0, cs)

def decField (l : Str) : Str × Str :=
  let r := splitLen l
  (r.2.take r.1, r.2.drop r.1)

def encOpt : Option Str → Str
  | none => ['n']
  | some s => 's' :: encField s

def decOpt : Str → Option Str × Str
  | [] => (none, [])
  | c :: cs => if c = 's' then let r := decField cs; (some r.1, r.2) else (none, cs)

def encRM (m : RMeta) : Str :=
  encStatus m.status :: (if m.hasRecipe then 't' else 'f') ::
    (encOpt m.title ++ (encOpt m.descr ++ (encOpt m.depName ++ encOpt m.depVersion)))

/-- total; `decRM [] = {}` (the token of directories / default metadata) -/
def decRM : Str → RMeta
  | st :: hr :: rest =>
    let t := decOpt rest
    let d := decOpt t.2
    let n := decOpt d.2
    let v := decOpt n.2
    { status := decStatus st, hasRecipe := hr = 't', title := t.1, descr := d.1, depName := n.1, depVersion := v.1 }
  | _ => {}

/-- what `get_metadata` reports, projected -/
structure RObs where
  isDir : Bool
  rm : RMeta
  deriving DecidableEq, Repr, Inhabited

/-! ### declarations -/

structure Recipe where
  query : Str                 -- `data["query"]`: resolved, canonical text
  title : Option Str
  descr : Option Str
  name : Str                  -- `recipe_name`
  version : Str               -- `Recipe.version()` (a token supplied with the declaration)
  cwd : Key                   -- `data["CWD"]`: root key of the recipe's directory
  filename : Str
  deriving DecidableEq, Repr, Inhabited

structure Cfg where
  root : Key                        -- mount point of the recipe store in the global store
  recipes : List (Key × Recipe)     -- `self._recipes` (local keys, insertion order)
  deriving Repr, Inhabited

def Cfg.lookup (c : Cfg) (k : Key) : Option Recipe := (c.recipes.find? (fun kv => kv.1 == k)).map (·.2)

/-- `d[k] = r` of a Python dictionary -/
def dictSet (l : List (Key × Recipe)) (k : Key) (r : Recipe) : List (Key × Recipe) :=
  if l.any (fun kv => kv.1 == k) then l.map (fun kv => if kv.1 == k then (k, r) else kv) else l ++ [(k, r)]

/-- the parser and printer of the query language, and the abstract evaluator -/
structure Env where
  prs : Str → Option Query                 -- `liquer.parser.parse` (`none` = `ParseException`)
  enc : Query → Str                        -- `Query.encode`
  evalQ : Str → Option Str → Option Data   -- resolved query text, extension ↦ serialised result

/-- `Query.filename()` -/
def queryFilename : Query → Option Str
  | .mk segs _ =>
    match segs.getLast? with
    | some (.transform _ _ (some f)) => some f
    | some (.resource _ names) => names.getLast?
    | _ => none

/-- one entry of a recipes file as the YAML loader delivers it -/
structure Item where
  query : Str
  isDict : Bool
  title : Option Str := none
  descr : Option Str := none
  filename : Option Str := none
  version : Str := []
  deriving Repr, Inhabited

def localRecipes : Str := ['R', 'E', 'C', 'I', 'P', 'E', 'S']
def statusFile : Str := ['r', 'e', 'c', 'i', 'p', 'e', 's', '_', 's', 't', 'a', 't', 'u', 's', '.', 't', 'x', 't']
def generatedFrom : Str := ['G', 'e', 'n', 'e', 'r', 'a', 't', 'e', 'd', ' ', 'f', 'r', 'o', 'm', ' ', 'q', 'u', 'e', 'r', 'y', ':', ' ']
def ryaml : Str := ['/', '-', 'R', 'y', 'a', 'm', 'l', '/']

/-- the query of a recipe made absolute against the root key of its directory: `parse(r).to_absolute(dir).encode()` -/
def resolveQuery (E : Env) (dir : Key) (text : Str) : Option Query :=
  match E.prs text with
  | none => none
  | some q => q.toAbsolute dir (some [])

/-- `resolve_recipe_definition` (+ the fields `update_recipes` adds); `none`: the definition cannot be resolved or
has no file name (outside the modelled domain: the Python code fails or produces the key `…/None`) -/
def resolve (E : Env) (rootDir : Key) (recipesRootKey : Key) (section_ : Str) (index : Nat) (it : Item) : Option Recipe :=
  match resolveQuery E rootDir it.query with
  | none => none
  | some q =>
    let fn? := if it.isDict then (match it.filename with | some f => some f | none => queryFilename q) else queryFilename q
    match fn? with
    | none => none
    | some fn =>
      some { query := E.enc q,
             title := if it.isDict then some (it.title.getD fn) else none,
             descr := if it.isDict then some (it.descr.getD (generatedFrom ++ it.query)) else none,
             name := joinStr ['/'] recipesRootKey ++ ryaml ++ section_ ++ '/' :: (toString index).toList ++ '#' :: fn,
             version := it.version, cwd := rootDir, filename := fn }

/-- the loop over the items of one section -/
def declareItems (E : Env) (root parent recipesKey : Key) (section_ : Str) :
    Nat → List Item → List (Key × Recipe) → Option (List (Key × Recipe))
  | _, [], acc => some acc
  | i, it :: rest, acc =>
    let cwd := if section_ = localRecipes then parent else parent ++ [section_]
    match resolve E (root ++ cwd) (root ++ recipesKey) section_ i it with
    | none => none
    | some r => declareItems E root parent recipesKey section_ (i + 1) rest (dictSet acc (cwd ++ [r.filename]) r)

def declareSections (E : Env) (root recipesKey : Key) : List (Str × List Item) → List (Key × Recipe) → Option (List (Key × Recipe))
  | [], acc => some acc
  | (sec, items) :: rest, acc =>
    match declareItems E root (parentKey recipesKey) recipesKey sec 0 items acc with
    | none => none
    | some acc' => declareSections E root recipesKey rest acc'

/-- `update_recipes` over the recipes files (in the order `substore.keys()` lists them) -/
def declare (E : Env) (root : Key) : List (Key × List (Str × List Item)) → List (Key × Recipe) → Option (List (Key × Recipe))
  | [], acc => some acc
  | (rk, secs) :: rest, acc =>
    match declareSections E root rk secs acc with
    | none => none
    | some acc' => declare E root rest acc'

/-! ### the store layer -/

structure RState (σ : Type) where
  sub : σ
  log : List Key := []      -- keys whose query was evaluated (transformation part executed), most recent first

variable {σ : Type}

def properPrefix (k k' : Key) : Bool := k.isPrefixOf k' && k != k'

/-- the loop of `is_dir` over the declared keys: the first key that is `k` (→ `False`) or lies below `k` (→ `True`) decides -/
def recipeDir : List (Key × Recipe) → Key → Bool
  | [], _ => false
  | (k', _) :: rest, k => if k' = k then false else if properPrefix k k' then true else recipeDir rest k

def isDir (S : StoreOps σ) (cfg : Cfg) (st : RState σ) (k : Key) : Except StoreErr Bool :=
  match S.isDir st.sub k with
  | .error e => .error e
  | .ok true => .ok true
  | .ok false => .ok (recipeDir cfg.recipes k)

def contains (S : StoreOps σ) (cfg : Cfg) (st : RState σ) (k : Key) : Except StoreErr Bool :=
  match S.contains st.sub k with
  | .error e => .error e
  | .ok true => .ok true
  | .ok false => .ok (cfg.recipes.any (fun kv => kv.1 == k || properPrefix k kv.1))

def keys (S : StoreOps σ) (cfg : Cfg) (st : RState σ) : Except StoreErr (List Key) :=
  match S.keys st.sub with
  | .error e => .error e
  | .ok ks => .ok (ks ++ cfg.recipes.map (·.1)).eraseDups

/-- `listdir`: never `None`; the names of the sub-store's listing and, for every declared key below `k`, its component at depth `len(k)` -/
def listdir (S : StoreOps σ) (cfg : Cfg) (st : RState σ) (k : Key) : Except StoreErr (List Str) :=
  match S.listdir st.sub k with
  | .error e => .error e
  | .ok l => .ok ((l.getD []) ++ cfg.recipes.filterMap (fun kv => if properPrefix k kv.1 then kv.1[k.length]? else none)).eraseDups

/-- `recipe_metadata(key)` as `get_metadata` returns it for a key that is not in the sub-store -/
def recipeMeta (r : Recipe) : RMeta :=
  { status := .recipe, title := r.title, descr := r.descr, hasRecipe := true }

def obsOf (mo : MetaObs) : RObs := { isDir := mo.isDir, rm := decRM mo.user }

def getMeta (S : StoreOps σ) (cfg : Cfg) (st : RState σ) (k : Key) : Except StoreErr RObs :=
  match S.getMeta st.sub k with
  | .ok mo => .ok (obsOf mo)
  | .error e =>
    if e ≠ .keyNotFound then .error e else
    match isDir S cfg st k with
    | .error e => .error e
    | .ok true => .ok { isDir := true, rm := {} }
    | .ok false =>
      match cfg.lookup k with
      | some r => .ok { isDir := false, rm := recipeMeta r }
      | none => .error .keyNotFound

/-- `create_status(key)`: (re)write `recipes_status.txt` of the directory of `key`; the text is not modelled -/
def statusKeyOf (d : Bool) (k : Key) : Key := (if d then k else parentKey k) ++ [statusFile]
def statusMeta : UMeta := { user := encRM { status := .other } }

def createStatus (S : StoreOps σ) (cfg : Cfg) (st : RState σ) (k : Key) : RState σ :=
  if keyName k = statusFile then st else
  match isDir S cfg st k with
  | .error _ => st
  | .ok d =>
    match S.store st.sub (statusKeyOf d k) [] statusMeta with
    | .ok sub' => { st with sub := sub' }
    | .error _ => st

/-- `store(key, data, metadata)`: sub-store, then `on_data_changed`, `on_metadata_changed` -/
def store (S : StoreOps σ) (cfg : Cfg) (st : RState σ) (k : Key) (d : Data) (m : RMeta) : Except StoreErr (RState σ) :=
  match S.store st.sub k d { user := encRM m } with
  | .error e => .error e
  | .ok sub' => .ok (createStatus S cfg (createStatus S cfg { st with sub := sub' } k) k)

/-- `store_metadata(key, metadata)`: title and description of a declared key are the recipe's -/
def declaredMeta (cfg : Cfg) (k : Key) (m : RMeta) : RMeta :=
  match cfg.lookup k with
  | some r => { m with title := r.title.or m.title, descr := r.descr.or m.descr }
  | none => m

def storeMeta (S : StoreOps σ) (cfg : Cfg) (st : RState σ) (k : Key) (m : RMeta) (size : Option Nat) (md5 : Option Data) :
    Except StoreErr (RState σ) :=
  match S.storeMeta st.sub k { user := encRM (declaredMeta cfg k m), size := size, md5 := md5 } with
  | .error e => .error e
  | .ok sub' => .ok (createStatus S cfg { st with sub := sub' } k)

def remove (S : StoreOps σ) (cfg : Cfg) (st : RState σ) (k : Key) : Except StoreErr (RState σ) :=
  match S.remove st.sub k with
  | .error e => .error e
  | .ok sub' => .ok (createStatus S cfg { st with sub := sub' } k)

/-! ### evaluation of a recipe -/

/-- how `QueryRecipe.make` ended: result stored, error state stored (`bare`: the state of a resource whose metadata
could not be read - it carries no title / description), or an exception before anything was stored -/
inductive EvalOut where
  | ok (d : Data) | failed (bare : Bool) | raised
  deriving DecidableEq, Repr, Inhabited

def EvalOut.ofOpt : Option Data → EvalOut
  | some d => .ok d
  | none => .failed false

/-- everything after the first dot: `".".join(name.split(".")[1:])` -/
def afterFirstDot (s : Str) : Str := (s.dropWhile (· != '.')).drop 1

/-- `state.metadata["extension"]`: set when the last element of the query is a file name -/
def queryExt : Query → Option Str
  | .mk segs _ =>
    match segs.getLast? with
    | some (.transform _ _ (some f)) => some (afterFirstDot f)
    | _ => none

/-- the extension `_store_state` hands to the serialiser (fix `C08-store-key-extension`: the key's name decides) -/
def storeExt (k : Key) (q : Query) : Option Str :=
  if (keyName k).contains '.' then some (afterFirstDot (keyName k)) else queryExt q

/-- `store.get_metadata(rk)` on the global store (a `MountPointStore` without default store, one mount) -/
def metaRoot (S : StoreOps σ) (cfg : Cfg) (st : RState σ) (rk : Key) : Except StoreErr RObs :=
  if cfg.root.isPrefixOf rk then getMeta S cfg st (rk.drop cfg.root.length)
  else if rk.isPrefixOf cfg.root then .ok { isDir := true, rm := {} }
  else .error .keyNotFound

/-- `store.get_bytes(rk)` on the global store; `rd` reads a local key of this store -/
def bytesRoot (cfg : Cfg) (rd : RState σ → Key → RState σ × Except StoreErr Data) (st : RState σ) (rk : Key) :
    RState σ × Except StoreErr Data :=
  if cfg.root.isPrefixOf rk then rd st (rk.drop cfg.root.length) else (st, .error .routeNotFound)

/-- `Context.evaluate(query)` up to (not including) `_store_state` -/
def evalPhase (S : StoreOps σ) (cfg : Cfg) (E : Env) (rd : RState σ → Key → RState σ × Except StoreErr Data)
    (st : RState σ) (r : Recipe) (k : Key) : RState σ × EvalOut :=
  match E.prs r.query with
  | none => (st, .raised)
  | some q =>
    match q.segments with
    | .resource _ names :: rest =>
      match metaRoot S cfg st names with
      | .error _ => (st, .failed true)                 -- `evaluate_resource` returns an error state, nothing runs
      | .ok _ =>
        let r1 := bytesRoot cfg rd st names               -- may materialise another recipe; a failure yields `None` data
        if rest.isEmpty then
          (r1.1, match r1.2 with | .ok d => .ok d | .error _ => .failed true)     -- pure resource query (not generated)
        else ({ r1.1 with log := k :: r1.1.log }, EvalOut.ofOpt (E.evalQ r.query (storeExt k q)))
    | _ => ({ st with log := k :: st.log }, EvalOut.ofOpt (E.evalQ r.query (storeExt k q)))

/-- metadata of the evaluated state as far as modelled (`is_error` is folded into the status: fix
`C08-failed-recipe-status` makes `make` treat an `is_error` state without status as an error) -/
def evMeta (s : RStatus) : RMeta := { status := s, title := some [], descr := some [] }
def evMetaBare : RMeta := { status := .error }

/-- the merge `make` performs on what the evaluation left in the sub-store -/
def mergeMeta (r : Recipe) (isErr : Bool) (m0 : RMeta) : RMeta :=
  { status := if isErr then .error else if m0.status = .unset then .ready else m0.status,
    title := r.title.or m0.title, descr := r.descr.or m0.descr, hasRecipe := true,
    depName := some r.name, depVersion := some r.version }

/-- `_store_state` of the evaluation (through this store's own `store` / `store_metadata`); the flag: `recipe.make` raised -/
def writeBack (S : StoreOps σ) (cfg : Cfg) (st : RState σ) (k : Key) : EvalOut → RState σ × Bool
  | .ok d => (match store S cfg st k d (evMeta .ready) with | .ok s => (s, false) | .error _ => (st, true))
  | .failed bare => (match storeMeta S cfg st k (if bare then evMetaBare else evMeta .error) none none with
      | .ok s => (s, false) | .error _ => (st, true))
  | .raised => (st, true)

/-- the rest of `make`: read the metadata back, merge, write, notify; `some e`: `make` raises `e` -/
def finishTail (S : StoreOps σ) (cfg : Cfg) (st2 : RState σ) (k : Key) (r : Recipe) (isErr : Bool) : RState σ × Option StoreErr :=
  match S.getMeta st2.sub k with
  | .error e => (st2, some e)
  | .ok mo =>
    match S.storeMeta st2.sub k { user := encRM (mergeMeta r isErr (decRM mo.user)), size := mo.size, md5 := mo.md5 } with
    | .error e => (st2, some e)
    | .ok sub' => (createStatus S cfg (createStatus S cfg { st2 with sub := sub' } k) k, none)

def finish (S : StoreOps σ) (cfg : Cfg) (st : RState σ) (k : Key) (r : Recipe) (out : EvalOut) : RState σ × Option StoreErr :=
  finishTail S cfg (writeBack S cfg st k out).1 k r (writeBack S cfg st k out).2

/-- `make(key)` -/
def makeWith (S : StoreOps σ) (cfg : Cfg) (E : Env) (rd : RState σ → Key → RState σ × Except StoreErr Data)
    (st : RState σ) (k : Key) : RState σ × Option StoreErr :=
  match cfg.lookup k with
  | none => (st, some .keyNotFound)
  | some r =>
    let p := evalPhase S cfg E rd st r k
    finish S cfg p.1 k r p.2

/-- the end of `get_bytes` after `make`: its exception, or the sub-store's bytes -/
def afterMake (S : StoreOps σ) (k : Key) (m : RState σ × Option StoreErr) : RState σ × Except StoreErr Data :=
  match m.2 with
  | some e => (m.1, .error e)
  | none => (m.1, S.getBytes m.1.sub k)

/-- `get_bytes(key)`; the fuel bounds the nesting of recipes that read other recipes (Python: the interpreter's recursion limit) -/
def getBytesF (S : StoreOps σ) (cfg : Cfg) (E : Env) : Nat → RState σ → Key → RState σ × Except StoreErr Data
  | 0, st, _ => (st, .error .other)
  | n + 1, st, k =>
    match S.contains st.sub k with
    | .error e => (st, .error e)
    | .ok true => (st, S.getBytes st.sub k)
    | .ok false => afterMake S k (makeWith S cfg E (getBytesF S cfg E n) st k)

def fuelOf (cfg : Cfg) : Nat := cfg.recipes.length + 2

def getBytes (S : StoreOps σ) (cfg : Cfg) (E : Env) (st : RState σ) (k : Key) : RState σ × Except StoreErr Data :=
  getBytesF S cfg E (fuelOf cfg) st k

def make (S : StoreOps σ) (cfg : Cfg) (E : Env) (st : RState σ) (k : Key) : RState σ × Option StoreErr :=
  makeWith S cfg E (getBytesF S cfg E (fuelOf cfg)) st k

/-! ### `clean_recipes` -/

/-- the body of the loop: directories are skipped, a key whose metadata has `has_recipe` is removed; failures are skipped -/
def cleanOne (S : StoreOps σ) (cfg : Cfg) (acc : RState σ × List Key) (k : Key) : RState σ × List Key :=
  match isDir S cfg acc.1 k with
  | .ok false =>
    (match getMeta S cfg acc.1 k with
     | .ok o =>
       if o.rm.hasRecipe then
         (match remove S cfg acc.1 k with
          | .ok s => (s, acc.2 ++ [k])
          | .error _ => acc)
       else acc
     | .error _ => acc)
  | _ => acc

/-- `clean_recipes` on the directory `dir` of this store; `none`: the command fails (not a directory), nothing happens -/
def cleanKeys (S : StoreOps σ) (cfg : Cfg) (st : RState σ) (dir : Key) (recursive : Bool) : Except StoreErr (List Key) :=
  if recursive then (match keys S cfg st with | .ok l => .ok (l.filter (properPrefix dir)) | .error e => .error e)
  else (match listdir S cfg st dir with | .ok l => .ok (l.map (fun n => dir ++ [n])) | .error e => .error e)

def clean (S : StoreOps σ) (cfg : Cfg) (st : RState σ) (dir : Key) (recursive : Bool) : RState σ × Option (List Key) :=
  match isDir S cfg st dir with
  | .ok true =>
    (match cleanKeys S cfg st dir recursive with
     | .error _ => (st, none)
     | .ok l => ((l.foldl (cleanOne S cfg) (st, [])).1, some (l.foldl (cleanOne S cfg) (st, [])).2))
  | _ => (st, none)

/-! ### histories -/

inductive ROp where
  | getBytes (k : Key) | getMeta (k : Key) | contains (k : Key) | isDir (k : Key) | keys | listdir (k : Key)
  | remove (k : Key) | clean (dir : Key) (recursive : Bool)
  deriving DecidableEq, Repr, Inhabited

def step (S : StoreOps σ) (cfg : Cfg) (E : Env) (st : RState σ) : ROp → RState σ
  | .getBytes k => (getBytes S cfg E st k).1
  | .remove k => (match remove S cfg st k with | .ok s => s | .error _ => st)
  | .clean d r => (clean S cfg st d r).1
  | _ => st

def run (S : StoreOps σ) (cfg : Cfg) (E : Env) (st : RState σ) (h : List ROp) : RState σ := h.foldl (step S cfg E) st

/-- a step that may evaluate a recipe: `get_bytes` of a declared key the sub-store does not contain -/
def triggers (S : StoreOps σ) (cfg : Cfg) (st : RState σ) : ROp → Bool
  | .getBytes k => (match S.contains st.sub k with | .ok false => (cfg.lookup k).isSome | _ => false)
  | _ => false

/-- the state a freshly created recipe store leaves: the recipes files are in the sub-store, the status files of all
directories with recipes have been written -/
def initState (S : StoreOps σ) (cfg : Cfg) (s0 : σ) (recipeFiles : List Key) : RState σ :=
  let s1 := recipeFiles.foldl (fun s k => match S.store s k [] { user := encRM {} } with | .ok s' => s' | .error _ => s) s0
  (cfg.recipes.map (fun kv => parentKey kv.1)).eraseDups.foldl (createStatus S cfg) { sub := s1 }

end Rcp
end Liquer
