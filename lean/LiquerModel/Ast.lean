/-
M2 (part 1): the query AST of liquer/parser.py and the `encode()` printers, literally.
Actions and parameters carry the character offset (`pos`) pyparsing reports for them; printers ignore
it and structural comparison is modulo `erase` (Python: `clean_position`).
-/
import LiquerModel.Token

namespace Liquer

abbrev Str := List Char

mutual
  /-- `StringActionParameter` | `LinkActionParameter` -/
  inductive Param where
    | str (s : Str) (pos : Nat)
    | link (q : Query) (pos : Nat)
  /-- `ActionRequest` -/
  inductive Action where
    | mk (name : Str) (params : List Param) (pos : Nat)
  /-- `SegmentHeader` -/
  inductive Header where
    | mk (name : Str) (level : Nat) (params : List Param) (resource : Bool)
  /-- `TransformQuerySegment` | `ResourceQuerySegment` -/
  inductive Seg where
    | transform (header : Option Header) (actions : List Action) (filename : Option Str)
    | resource (header : Option Header) (names : List Str)
  /-- `Query` -/
  inductive Query where
    | mk (segments : List Seg) (absolute : Bool)
end

def Query.segments : Query → List Seg | .mk s _ => s
def Query.absolute : Query → Bool | .mk _ a => a
def Action.name : Action → Str | .mk n _ _ => n
def Action.params : Action → List Param | .mk _ p _ => p
def Action.pos : Action → Nat | .mk _ _ p => p
def Param.pos : Param → Nat
  | .str _ p => p
  | .link _ p => p
def Header.name : Header → Str | .mk n _ _ _ => n
def Header.level : Header → Nat | .mk _ l _ _ => l
def Header.params : Header → List Param | .mk _ _ p _ => p
def Header.resource : Header → Bool | .mk _ _ _ r => r
def Seg.header : Seg → Option Header
  | .transform h _ _ => h
  | .resource h _ => h
def Seg.isTransform : Seg → Bool
  | .transform .. => true
  | .resource .. => false

/-- `"sep".join(parts)` -/
def joinStr (sep : Str) : List Str → Str
  | [] => []
  | [w] => w
  | w :: ws => w ++ sep ++ joinStr sep ws

mutual
  def Param.encode (tbl : EscTable) : Param → Str
    | .str s _ => encodeToken tbl s
    | .link q _ => ['~', 'X', '~'] ++ q.encode tbl ++ ['~', 'E']
  /-- the `"-" + p.encode()` sequence used by actions and headers -/
  def encodeDashParams (tbl : EscTable) : List Param → Str
    | [] => []
    | p :: ps => '-' :: (p.encode tbl ++ encodeDashParams tbl ps)
  def Action.encode (tbl : EscTable) : Action → Str
    | .mk name params _ => name ++ encodeDashParams tbl params
  def encodeActions (tbl : EscTable) : List Action → List Str
    | [] => []
    | a :: as => a.encode tbl :: encodeActions tbl as
  def Header.encode (tbl : EscTable) : Header → Str
    | .mk name level params resource =>
      List.replicate level '-' ++ (if resource then ['R'] else []) ++ name ++ encodeDashParams tbl params
  def Seg.encode (tbl : EscTable) : Seg → Str
    | .transform header actions filename =>
      let q0 := joinStr ['/'] (encodeActions tbl actions)
      let q := match filename with
        | none => q0
        | some f => if q0.isEmpty then f else q0 ++ '/' :: f
      match header with
      | none => q
      | some h => if q.isEmpty then h.encode tbl else h.encode tbl ++ '/' :: q
    | .resource header names =>
      let q := joinStr ['/'] names
      let rqs0 := match header with
        | none => []
        | some h => h.encode tbl
      if q.isEmpty then rqs0 else (if rqs0.isEmpty then rqs0 else rqs0 ++ ['/']) ++ q
  def encodeSegs (tbl : EscTable) : List Seg → List Str
    | [] => []
    | s :: ss => s.encode tbl :: encodeSegs tbl ss
  def Query.encode (tbl : EscTable) : Query → Str
    | .mk segments absolute =>
      let q0 := joinStr ['/'] (encodeSegs tbl segments)
      let q1 := match segments with
        | [.resource _ _] => if q0.head? == some '-' then q0 else ['-', 'R', '/'] ++ q0
        | _ => q0
      if absolute then '/' :: q1 else q1
end

/-! ### `clean_position` -/
mutual
  def Param.erase : Param → Param
    | .str s _ => .str s 0
    | .link q _ => .link q.erase 0
  def eraseParams : List Param → List Param
    | [] => []
    | p :: ps => p.erase :: eraseParams ps
  def Action.erase : Action → Action
    | .mk n ps _ => .mk n (eraseParams ps) 0
  def eraseActions : List Action → List Action
    | [] => []
    | a :: as => a.erase :: eraseActions as
  def Header.erase : Header → Header
    | .mk n l ps r => .mk n l (eraseParams ps) r
  def Seg.erase : Seg → Seg
    | .transform h as f => .transform (match h with | none => none | some h => some h.erase) (eraseActions as) f
    | .resource h ns => .resource (match h with | none => none | some h => some h.erase) ns
  def eraseSegs : List Seg → List Seg
    | [] => []
    | s :: ss => s.erase :: eraseSegs ss
  def Query.erase : Query → Query
    | .mk segs a => .mk (eraseSegs segs) a
end

end Liquer
