/-
M1 (part 1): strings as `List Char`, CPython `str.replace`, `urllib.parse.quote/unquote`.

Mirrors (modelled, tied by the C03 correspondence stream):
  * `str.replace(old, new)`      -> `replaceAll`
  * `urllib.parse.quote(s)`      -> `quote`      (default `safe="/"`, UTF-8, strict)
  * `urllib.parse.unquote(s)`    -> `unquote dec` (maximal ASCII runs -> bytes -> UTF-8 decode `dec`)

No imports: this file is linked into the `driver` executable.
-/
namespace Liquer

/-- `pat.isPrefixOf s` on char lists, written out so that proofs can unfold it. -/
def isPrefix : List Char → List Char → Bool
  | [], _ => true
  | _ :: _, [] => false
  | p :: ps, c :: cs => p == c && isPrefix ps cs

/-- CPython `s.replace(pat, rep)` for a non-empty pattern: left-most, non-overlapping.
Fuel-based (fuel = length of the subject suffices, see `replaceAll`). For an empty pattern
the function returns the subject unchanged (the escape table never contains one; `TableOK`). -/
def replaceAllF (pat rep : List Char) : Nat → List Char → List Char
  | 0, s => s
  | _ + 1, [] => []
  | n + 1, c :: cs =>
    if pat ≠ [] && isPrefix pat (c :: cs) then
      rep ++ replaceAllF pat rep n ((c :: cs).drop pat.length)
    else
      c :: replaceAllF pat rep n cs

def replaceAll (pat rep s : List Char) : List Char :=
  replaceAllF pat rep s.length s

/-! ### percent encoding -/

def hexDigitUpper (n : Nat) : Char :=
  if n < 10 then Char.ofNat (48 + n) else Char.ofNat (55 + n)

/-- value of a hexadecimal digit, either case -/
def hexVal? (c : Char) : Option Nat :=
  if '0' ≤ c ∧ c ≤ '9' then some (c.toNat - 48)
  else if 'A' ≤ c ∧ c ≤ 'F' then some (c.toNat - 55)
  else if 'a' ≤ c ∧ c ≤ 'f' then some (c.toNat - 87)
  else none

/-- `quote`'s always-safe set plus the default `safe="/"`. -/
def quoteSafe (c : Char) : Bool :=
  ('A' ≤ c && c ≤ 'Z') || ('a' ≤ c && c ≤ 'z') || ('0' ≤ c && c ≤ '9') ||
  c == '_' || c == '.' || c == '-' || c == '~' || c == '/'

def pctByte (b : UInt8) : List Char :=
  ['%', hexDigitUpper (b.toNat / 16), hexDigitUpper (b.toNat % 16)]

def quoteChar (c : Char) : List Char :=
  if quoteSafe c then [c] else (String.utf8EncodeChar c).flatMap pctByte

/-- `urllib.parse.quote(s)` on a string of Unicode scalar values. -/
def quote (s : List Char) : List Char := s.flatMap quoteChar

/-- `urllib.parse.unquote_to_bytes` on an ASCII run. -/
def unquoteBytes : List Char → List UInt8
  | [] => []
  | '%' :: a :: b :: rest =>
    match hexVal? a, hexVal? b with
    | some x, some y => UInt8.ofNat (16 * x + y) :: unquoteBytes rest
    | _, _ => 37 :: unquoteBytes (a :: b :: rest)
  | c :: rest => UInt8.ofNat c.toNat :: unquoteBytes rest

def isAscii (c : Char) : Bool := c.toNat < 128

/-- decode an accumulated (reversed) ASCII run -/
def flushRun (dec : List UInt8 → List Char) (acc : List Char) : List Char :=
  if acc.isEmpty then [] else dec (unquoteBytes acc.reverse)

def unquoteGo (dec : List UInt8 → List Char) : List Char → List Char → List Char
  | [], acc => flushRun dec acc
  | c :: cs, acc =>
    if isAscii c then unquoteGo dec cs (c :: acc)
    else flushRun dec acc ++ c :: unquoteGo dec cs []

/-- `urllib.parse.unquote(s)`: every maximal ASCII run is turned into bytes and decoded by
`dec` (UTF-8 with a replacement policy in CPython); non-ASCII characters are kept. The fast path
`'%' not in s` of CPython is observationally the same for any `dec` that is the identity on ASCII. -/
def unquote (dec : List UInt8 → List Char) (s : List Char) : List Char :=
  unquoteGo dec s []

/-- The law every admissible byte decoder has to satisfy: it inverts UTF-8 encoding. -/
def DecOK (dec : List UInt8 → List Char) : Prop :=
  ∀ cs : List Char, dec (cs.flatMap String.utf8EncodeChar) = cs

/-- The driver's decoder: core's verified UTF-8 decoder; `none` (unmodelled) on invalid input. -/
def decUtf8? (bs : List UInt8) : Option (List Char) :=
  (bs.toByteArray.utf8Decode?).map Array.toList

def decUtf8 (bs : List UInt8) : List Char := (decUtf8? bs).getD []

end Liquer
