/-
M7 (part 1): the evaluator of Eval.lean once more, but against an *oracle* instead of a cache: every `get` consumes the next
answer of a given list, every cache operation is appended to a trace. This is the small-step view of an evaluation that the
concurrency property C12 needs: a thread is the function `answers ↦ trace`; a scheduler (Conc.lean) interleaves the cache
operations of several threads on one shared cache, feeding each `get` the answer of the shared cache at that moment.

The mutual block below is GENERATED from the one in Eval.lean by harness/gen_evalo.py (textual substitution `World → OW`,
`w.get key → w.ask key`); `evalQO_agrees` (Props/C12.lean) states that running it with the answers a real `World` would give
reproduces `evalQ`.
-/
import LiquerModel.Eval

namespace Liquer

/-- cache operations as they appear in a trace -/
inductive COp where
  | get (k : Str)
  | storeMeta (k : Str) (status : Str)
  | store (st : EState)
  | remove (k : Str)
  deriving Repr, Inhabited

/-- oracle world: remaining answers, trace so far (oldest first), call log, and whether a `get` found no answer left -/
structure OW where
  answers : List (Option EState) := []
  trace : List COp := []
  calls : List Str := []
  starved : Bool := false
  deriving Repr, Inhabited

def OW.ask (w : OW) (k : Str) : OW × Option EState :=
  match w.answers with
  | a :: rest => ({ w with answers := rest, trace := w.trace ++ [.get k] }, a)
  | [] => ({ w with starved := true, trace := w.trace ++ [.get k] }, none)

def OW.emit (w : OW) (op : COp) : OW := if w.starved then w else { w with trace := w.trace ++ [op] }
def OW.storeMeta (w : OW) (k : Str) (status : Str) : OW := w.emit (.storeMeta k status)
def OW.store (w : OW) (s : EState) : OW := w.emit (.store s)
def OW.remove (w : OW) (k : Str) : OW := w.emit (.remove k)
def OW.log (w : OW) (c : Str) : OW := if w.starved then w else { w with calls := w.calls ++ [c] }

mutual
  /-- `Context.evaluate(text)`: parse, then evaluate -/
  def evalTextO (env : Env) : Nat → OW → Str → Bool → OW × Outcome
    | 0, w, _, _ => (w, .unmodelled)
    | n + 1, w, text, useGlobal =>
      match parse env.dec text with
      | none => (w, .parseError)
      | some q => evalQO env n w q text .none none useGlobal

  /-- `Context.evaluate(query)` with `rawQuery` the text metadata is filed under; `useCache = false` models the
  `NoCache()` that an injected input value / `evaluate_on` selects for this chain of predecessors -/
  def evalQO (env : Env) : Nat → OW → Query → Str → Extra → Option Val → Bool → OW × Outcome
    | 0, w, _, _, _, _, _ => (w, .unmodelled)
    | n + 1, w, q, rawQuery, extra, input, useCache =>
      let tbl := Gen.escapeTable
      let key := q.encode tbl
      let (w, hit) : OW × Option EState := if extra.isEmpty && input.isNone && useCache then w.ask key else (w, none)
      if w.starved then (w, .unmodelled) else
      match hit with
      | some st => (w, .st st)
      | none =>
        match q with
        | .mk [.resource _ _] _ => (w, .unmodelled)       -- resource queries: C08/C17 harnesses, not this model
        | _ =>
        -- predecessor
        let (w1, pre) : OW × Outcome × Str × Option Seg :=
          match q.predecessor with
          | none => (w, .st { vars := env.defaults, data := input.getD .none }, [], none)
          | some (p, r) =>
            if p.segments.isEmpty then (w, .st { vars := env.defaults, data := input.getD .none }, [], r)
            else
              let pk := p.encode tbl
              let w0 := if useCache then w.storeMeta rawQuery (s "evaluating parent") else w
              let (w1, o) := evalQO env n w0 p pk .none input useCache
              (w1, o, pk, r)
        let (o, parentQuery, r) := pre
        match o with
        | .raised a b => (w1, .raised a b)
        | .parseError => (w1, .parseError)
        | .unmodelled => (w1, .unmodelled)
        | .st st =>
          if st.isError then
            let w2 := if useCache then w1.storeMeta rawQuery (s "error") else w1
            (w2, .st { st with data := .none, query := key })
          else
            match r with
            | none => (w1, .st { st with query := key })
            | some (.transform _ [] (some f)) =>
              -- file name step
              let st2 := { st with filename := some f, extension := some (extensionOf f), query := key }
              let w1 := if useCache then w1.storeMeta rawQuery (s "evaluation") else w1
              let w2 := if !useCache then w1
                        else if st2.caching && !st2.volatile then w1.store st2 else w1.remove key
              (w2, .st st2)
            | some (.transform _ [a] none) =>
              let (w2, o2) := evalActionO env n w1 st a rawQuery parentQuery extra useCache
              (match o2 with
               | .st st2 =>
                 let st3 := { st2 with query := key }
                 let w3 := if !useCache then w2
                           else if st3.caching && !st3.isError && !st3.volatile then w2.store st3
                           else if st3.isError then w2.storeMeta key (s "error")
                           else w2.remove key
                 (w3, .st st3)
               | other => (w2, other))
            | some _ => (w1, .unmodelled)

  /-- `Context.evaluate_action` for a command action -/
  def evalActionO (env : Env) : Nat → OW → EState → Action → Str → Str → Extra → Bool → OW × Outcome
    | 0, w, _, _, _, _, _, _ => (w, .unmodelled)
    | n + 1, w, st, act, rawQuery, parentQuery, extra, useCache =>
      let tbl := Gen.escapeTable
      let w := if useCache then w.storeMeta rawQuery (s "evaluation") else w
      let cmds := [act.toList tbl]
      let failAt (w : OW) (attrs : List (Str × Str)) (vol : Bool) (pos : Option Nat) (q : Option Str) : OW × Outcome :=
        ((if useCache then w.storeMeta rawQuery (s "error") else w), .st { st with data := .none, isError := true, status := s "error", commands := cmds, attrs := attrs, volatile := st.volatile || vol, errPos := pos, errQuery := q })
      let failState (w : OW) (attrs : List (Str × Str)) (vol : Bool) : OW × Outcome :=
        failAt w attrs vol (some act.pos) (some rawQuery)
      match namespacesOf st.vars with
      | none => (w, .unmodelled)
      | some nss =>
        if !(nss.getLast?.map env.reg.hasNs).getD false then (w, .unmodelled) else
        match resolve env.reg nss act.name with
        | none => failState w (mergeAttrs st.attrs []) false
        | some sig =>
          -- parameters, left to right
          match evalParamsO env n w act.params rawQuery parentQuery with
          | (w1, .inr o) => (w1, o)
          | (w1, .inl given) =>
            let (given, kwargs, extraVol) : List PVal × List (Str × Val) × Bool :=
              match extra with
              | .none => (given, [], false)
              | .list vs => if vs.isEmpty then (given, [], false) else (given ++ vs.map .raw, [], true)
              | .dict kv => if kv.isEmpty then (given, [], false) else (given, kv, true)
            let attrs := mergeAttrs st.attrs sig.attrs
            match parseArgv sig.args given kwargs with
            | .unmodelled => (w1, .unmodelled)
            | .fail => failState w1 attrs (extraVol || cmdVolatile sig.attrs)
            | .ok args =>
              -- only the harness' own commands are instrumented; let/flag/state_variable/ns belong to the library
              let w2 := if isLibraryCommand sig.name then w1
                        else w1.log (callText sig.ns sig.name (if sig.first then .none else st.data) args)
              let done (w : OW) (v : Val) (vars : Vars) (caching : Bool) : OW × Outcome :=
                ((if useCache then w.storeMeta rawQuery statusReady else w), .st { st with data := v, vars := st.vars.update vars, status := statusReady, commands := cmds, attrs := attrs, caching := caching && st.caching, volatile := st.volatile || extraVol || cmdVolatile sig.attrs })
              match cmdSem sig.ns sig.name st.data st.vars args with
              | .unmodelled => (w2, .unmodelled)
              | .raises => failState w2 attrs (extraVol || cmdVolatile sig.attrs)
              | .value v => done w2 v [] true
              | .stateVars v vars => done w2 v vars true
              | .nocache v => done w2 v [] false
              | .subeval x qtext =>
                -- `context.evaluate(q)` from inside the command: a child context on the global cache
                let (w3, o) := evalTextO env n w2 qtext true
                (match o with
                 | .st sub =>
                   -- a failing sub-evaluation is reported with the position / query of *its* failing action
                   if sub.isError then failAt w3 attrs extraVol sub.errPos sub.errQuery else done w3 (.list [x, sub.data]) [] true
                 | .parseError => failState w3 attrs extraVol
                 | .raised _ _ => (w3, .unmodelled)
                 | .unmodelled => (w3, .unmodelled))

  /-- `evaluate_parameter` over the parameter list: converted parameters, or the outcome that aborts the evaluation -/
  def evalParamsO (env : Env) : Nat → OW → List Param → Str → Str → OW × (List PVal ⊕ Outcome)
    | 0, w, _, _, _ => (w, .inr .unmodelled)
    | _ + 1, w, [], _, _ => (w, .inl [])
    | n + 1, w, p :: ps, rawQuery, parentQuery =>
      match p with
      | .str t pos =>
        (match evalParamsO env n w ps rawQuery parentQuery with
         | (w1, .inl rest) => (w1, .inl (.text t pos :: rest))
         | other => other)
      | .link lq pos =>
        let tbl := Gen.escapeTable
        -- links are evaluated by a child context on the global cache
        let wg := w
        let (w1, o) : OW × Outcome :=
          if lq.absolute || parentQuery.isEmpty || parentQuery == ['/'] then
            evalQO env n wg lq (lq.encode tbl) .none none true
          else
            match lq with
            | .mk [.transform h as f] _ =>
              -- `(parse(self.parent_query) + tq).encode()` then `evaluate(text)`
              (match parse env.dec parentQuery with
               | none => (wg, .unmodelled)
               | some pq =>
                 let text := (Query.mk (pq.segments ++ [.transform h as f]) pq.absolute).encode tbl
                 evalTextO env n wg text true)
            | _ => (wg, .unmodelled)      -- "Only transform query supported in apply" (raises a plain Exception)
        match o with
        | .st v =>
          if v.isError then (w1, .inr (.raised (some pos) (some rawQuery)))
          else
            (match evalParamsO env n w1 ps rawQuery parentQuery with
             | (w2, .inl rest) => (w2, .inl (.expanded v.data pos :: rest))
             | other => other)
        | .raised a b => (w1, .inr (.raised a b))
        | .parseError => (w1, .inr .parseError)
        | .unmodelled => (w1, .inr .unmodelled)
end


end Liquer
