/-
M8b: the two state types whose codec is LiQuer's OWN code (`liquer/state_types.py`), not third party:

  * `TextStateType`  — `as_bytes(data, ext)`: `data.encode("utf-8")` (the extension only selects the media type, every
    extension is written), `from_bytes(b, ext)`: `b.decode("utf-8")` — STRICT: invalid UTF-8 raises `UnicodeDecodeError`
    —, `copy(data)`: `data[:]`;
  * `BytesStateType` — `as_bytes` / `from_bytes`: the bytes themselves, `copy`: `deepcopy(data)`.

Mirrors (modelled, tied by the C11 correspondence stream `st.own`): `ownCodec`, an instance of the abstract `Codec` of
`StateTypes.lean` over the value domain `OwnVal` (a `str` of Unicode scalar values or a `bytes` object).
UTF-8: encoding is core's `String.utf8EncodeChar` per character; decoding is core's verified strict decoder
(`ByteArray.utf8Decode?`, which succeeds exactly on the encodings of scalar-value strings), through `Liquer.decUtf8?`.
No imports outside `LiquerModel`: linked into the `driver` executable.
-/
import LiquerModel.StateTypes

namespace Liquer.StateTypes
open Liquer

/-- the values the two own state types serve: a `str` (Unicode scalar values) or a `bytes` object -/
inductive OwnVal where
  | text (s : Str)
  | bytes (b : List UInt8)
deriving DecidableEq, Repr

/-- `s.encode("utf-8")` on a string of Unicode scalar values -/
def utf8Bytes (s : Str) : List UInt8 := s.flatMap String.utf8EncodeChar

/-- `b.decode("utf-8")` (errors="strict"): `none` = `UnicodeDecodeError` -/
def utf8Strict (b : List UInt8) : Option Str := decUtf8? b

/-- `get_type_qualname(str)` -/
def qualStr : Str := ['b', 'u', 'i', 'l', 't', 'i', 'n', 's', '.', 's', 't', 'r']
/-- `get_type_qualname(bytes)` -/
def qualBytes : Str := ['b', 'u', 'i', 'l', 't', 'i', 'n', 's', '.', 'b', 'y', 't', 'e', 's']
/-- `TextStateType().identifier()` -/
def identText : Str := ['t', 'e', 'x', 't']
/-- `BytesStateType().identifier()` -/
def identBytes : Str := ['b', 'y', 't', 'e', 's']

/-- qualified Python type name of the value: the key `encode_state_data` hands to the registry -/
def OwnVal.typeName : OwnVal → Str
  | .text _ => qualStr
  | .bytes _ => qualBytes

/-- `TextStateType` and `BytesStateType` as a `Codec`. `none` = the call raises (`bytes` has no `.encode`), is made on a
state type that is not one of the two, or — `BytesStateType().as_bytes(a_str)` hands the `str` through — does not
produce a `bytes` object. Neither type looks at the extension when encoding or decoding. -/
def ownCodec : Codec OwnVal (List UInt8) where
  typeOf := OwnVal.typeName
  enc := fun T _ x =>
    match x with
    | .text s => if T = identText then some (utf8Bytes s) else none
    | .bytes b => if T = identBytes then some b else none
  dec := fun T _ b =>
    if T = identText then (utf8Strict b).map OwnVal.text
    else if T = identBytes then some (OwnVal.bytes b)
    else none
  -- `data[:]` and `deepcopy(data)` both return an equal object for a `str` as well as for a `bytes`
  copy := fun T x => if T = identText ∨ T = identBytes then some x else none

end Liquer.StateTypes
