/-
Terminals of the grammar: the regular expressions used by liquer/parser.py are all of the shape
`item₁ item₂ …` where an item is a character class with a repetition count. The translator
(harness/extract.py) converts each live `Regex.pattern` to this form and checks the determinism
side condition (a class that may repeat a variable number of times is disjoint from the class that
follows), under which greedy matching without back-tracking is exactly `re.match`.
-/
namespace Liquer

structure ReItem where
  ranges : List (Nat × Nat)      -- inclusive code point ranges
  min : Nat
  max : Option Nat               -- `none` = unbounded
  deriving Repr, DecidableEq, Inhabited

abbrev Re := List ReItem

def inRanges (rs : List (Nat × Nat)) (c : Char) : Bool :=
  rs.any (fun r => r.1 ≤ c.toNat && c.toNat ≤ r.2)

/-- take at most `limit` (if given) leading characters in the class -/
def takeClass (rs : List (Nat × Nat)) : Option Nat → List Char → List Char × List Char
  | some 0, s => ([], s)
  | _, [] => ([], [])
  | lim, c :: cs =>
    if inRanges rs c then
      let (m, r) := takeClass rs (lim.map (· - 1)) cs
      (c :: m, r)
    else ([], c :: cs)

/-- `re.match(pattern, s)`: matched text and remainder -/
def matchRe : Re → List Char → Option (List Char × List Char)
  | [], s => some ([], s)
  | it :: its, s =>
    let (m, r) := takeClass it.ranges it.max s
    if m.length < it.min then none
    else match matchRe its r with
      | none => none
      | some (m2, r2) => some (m ++ m2, r2)

/-- the determinism side condition (checked by `decide` for every regenerated terminal) -/
def rangesDisjoint (a b : List (Nat × Nat)) : Bool :=
  a.all (fun x => b.all (fun y => x.2 < y.1 || y.2 < x.1))

def reDeterministic : Re → Bool
  | [] => true
  | [_] => true
  | a :: b :: rest =>
    (a.max == some a.min || rangesDisjoint a.ranges b.ranges) && reDeterministic (b :: rest)

end Liquer
