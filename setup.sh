#!/bin/bash
# setup_cmd: regenerate the tables from /repo and build models, every property's theorems and the driver (offline).
set -e
cd "$(dirname "$0")"
/venv/bin/python harness/extract.py
cd lean
flock .build.lock lake build LiquerModel driver $(ls LiquerProofs/Props/*.lean LiquerProofs/Inst/*.lean | sed 's/\.lean$//; s#/#.#g')
