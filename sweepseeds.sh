#!/bin/bash
# sweepseeds.sh [pattern] : run every kept seeded change (seeded/<ID>-<n>/patch.diff) against the checks named in its meta.json (caught_by);
# one line per (change, check): CAUGHT (exit 1 + VIOLATION line), MISSED (exit 0) or INFRA (anything else). /repo itself is not touched
# (seedtest.sh: scratch worktree + PYTHONPATH override).
cd "$(dirname "$0")"
for d in seeded/${1:-*}/; do
  id=$(basename "$d")
  checks=$(python3 -c "import json,sys; import re; print(' '.join(dict.fromkeys(m for c in json.load(open('$d/meta.json')).get('caught_by', []) for m in re.findall(r'C[0-9][0-9]', c) if not c.startswith('('))))")
  [ -z "$checks" ] && { echo "$id skipped (no check named: $(python3 -c "import json; print(json.load(open('$d/meta.json')).get('caught_by'))"))"; continue; }
  ./seedtest.sh "$d/patch.diff" $checks 2>&1 | grep " rc=" | while read -r line; do
    c=${line%% *}; rc=$(echo "$line" | sed -n 's/.* rc=\([0-9]*\) .*/\1/p')
    if [ "$rc" = "1" ] && echo "$line" | grep -q VIOLATION; then
      if echo "$line" | grep -q no-failing-input-found; then echo "$id $c CAUGHT (no failing input)"; else echo "$id $c CAUGHT"; fi
    elif [ "$rc" = "0" ]; then echo "$id $c MISSED"; else echo "$id $c INFRA rc=$rc"; fi
  done
done
