#!/bin/bash
# seedtest.sh <patch.diff> <ID> [<ID>...] : run checks against a scratch worktree of /repo with the patch applied
# (PYTHONPATH override; /repo itself is not touched). Prints one line per check. VERIF_TIER / VERIF_SEED are passed through.
cd "$(dirname "$0")"
patch=$(readlink -f "$1"); shift
wt=$(mktemp -d /tmp/wt_seedtest_XXXX); rmdir "$wt"
git -C /repo worktree add -q "$wt" HEAD || exit 2
if ! git -C "$wt" apply "$patch"; then echo "PATCH DOES NOT APPLY"; git -C /repo worktree remove --force "$wt"; exit 2; fi
for p in "$@"; do
  out=$(VERIF_EVIDENCE_DIR="$wt/.evidence" PYTHONPATH="$wt" ./check $p --tier ${VERIF_TIER:-quick} 2>&1); rc=$?
  echo "$p rc=$rc :: $(echo "$out" | grep -m1 '^VIOLATION' | cut -c1-160)"
  echo "$out" | grep -v '^KNOWN-FINDING' | grep -A1 '^VIOLATION' | tail -1 | cut -c1-300
done
git -C /repo worktree remove --force "$wt"; git -C /repo worktree prune
/venv/bin/python harness/extract.py >/dev/null 2>&1   # restore Gen/*.lean from /repo
