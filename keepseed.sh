#!/bin/bash
# keepseed.sh <ID> <n> "<checks that caught it>" : verify a seeded change produced in /tmp/seed_<ID>/out/<n> (demo fails with the
# patch and passes without, full test-suite result unchanged) and keep it as /verif/seeded/<ID>-<n>/
set -u
id=$1; n=$2; caught=${3:-}
src=/tmp/seed_$id/out/$n
wt=$(mktemp -d /tmp/wt_keep_XXXX); rmdir $wt
git -C /repo worktree add -q $wt HEAD || exit 2
mkdir -p $wt/out/$n; cp $src/demo.py $wt/out/$n/
(cd $wt && timeout 300 /venv/bin/python out/$n/demo.py >/dev/null 2>&1); clean_rc=$?
git -C $wt apply $src/patch.diff || { echo "patch does not apply"; git -C /repo worktree remove --force $wt; exit 2; }
(cd $wt && timeout 300 /venv/bin/python out/$n/demo.py > $wt/demo.out 2>&1); mut_rc=$?
tests=$(cd $wt && timeout 900 /venv/bin/python -m pytest -q -p no:cacheprovider tests 2>&1 | tail -1)
echo "demo clean rc=$clean_rc mutated rc=$mut_rc ; tests with patch: $tests"
ok=0
if [ $clean_rc -eq 0 ] && [ $mut_rc -ne 0 ] && echo "$tests" | grep -q "216 passed"; then ok=1; fi
if [ $ok -eq 1 ]; then
  d=/verif/seeded/$id-$n; mkdir -p $d
  cp $src/patch.diff $src/demo.py $d/; cp $src/notes.md $d/notes.md 2>/dev/null
  tail -5 $wt/demo.out > $d/demo_output.txt
  python3 - "$id" "$n" "$caught" "$tests" <<'PY'
import json,sys,re
id,n,caught,tests=sys.argv[1:5]
notes=open('/verif/seeded/%s-%s/notes.md'%(id,n)).read() if True else ''
json.dump(dict(property=id, change=int(n), breaks=id, needs_to_manifest=notes[:1500],
  what_i_ran=["git apply patch.diff on a scratch worktree of /repo HEAD", "demo.py: exit 0 on the clean tree, non-zero with the patch",
              "full pytest suite with the patch: "+tests.strip(), "./seedtest.sh patch.diff <checks> (PYTHONPATH override of the scratch worktree)"],
  caught_by=caught.split()), open('/verif/seeded/%s-%s/meta.json'%(id,n),'w'), indent=1)
PY
  echo "kept /verif/seeded/$id-$n"
else echo "NOT KEPT"; fi
git -C /repo worktree remove --force $wt; git -C /repo worktree prune
